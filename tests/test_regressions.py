# -*- coding: utf-8 -*-
"""Replays, without the explorer, every stored counterexample of a defect that was repaired in /repo
(regressions/*.json, harvested by tools/harvest_regressions.sh from trees with one fix reverted).
On the current tree none of them may fail.      /venv/bin/python -m pytest -q /verif/tests
"""
import os, sys, json, glob, importlib
import pytest

HERE = os.path.dirname(os.path.dirname(os.path.abspath(__file__)))
sys.path.insert(0, HERE)
os.environ.setdefault('PYTHONHASHSEED', '0')
from mc import engine      # noqa: E402  (puts VERIF_REPO on sys.path, disables logging)

FILES = sorted(glob.glob(os.path.join(HERE, 'regressions', '*.json')))


@pytest.mark.parametrize('path', FILES, ids=[os.path.basename(f) for f in FILES])
def test_stored_counterexample_no_longer_fails(path):
    with open(path) as f:
        v = json.load(f)
    mod = importlib.import_module('mc.checks.' + v['property'].lower())
    engine.install_watchdog()
    got = mod.replay(v['check'], v['case'])
    assert got == [], 'stored counterexample fails again: %r' % ([g['signature'] for g in got],)
