# -*- coding: utf-8 -*-
"""C06 - tolerant mode: total, equals strict on valid input, keeps pre-error content.

BE: every word of the sweep spaces in tolerant mode: terminates, raises nothing, equals the
strict tree whenever the strict parse succeeds.  Fault enumeration: every generated
well-formed document U (ending in a closed construct) followed by every stray closer and
every garbage word of length <= 2: the result is not None and starts with exactly canon(U).
"""
import itertools
from mc import engine, sweeps, contexts, canon, words
from mc.engine import run_guarded, exc_frame

ID = 'C06'
LEVEL = 'fault_enumeration'
TECHNIQUE = 'bounded-exhaustive words (tolerant vs strict differential) + exhaustive stray-closer/garbage suffixes on generated documents'

SPECS = {'quick': dict(R=5, L=3, A=3, Z=3, CR=4, E=3), 'thorough': dict(R=6, L=4, A=4, Z=4, CR=5, E=4)}
CLOSERS = ['}', ']', '\\)', '\\]', '$', '\\end{itemize}']


# termination under repetition: head . unit^n . tail for every head, unit, tail of small menus and n in SCALE_N
SCALE_HEADS = ['', '\\begin{', '\\end{', '\\begin{itemize}', '{', '[', '$', '\\(', '\\[', '\\textbf', '\\item[', '\\sqrt[', '\\frac', '%',
               '\\verb|', '\\begin{verbatim}', '\\begin{equation}', '\\', '\\section*[']
SCALE_UNITS = ['a', ' ', 'a ', '{', '}', '[', ']', '\\item[', '\\sqrt[', '\\textbf', '\\textbf{', '$', '$$', '\\(', '\\)', '\\x', '\\begin{a}', '\\end{a}',
               '\\begin{', '\n', '\n\n', '%\n', '~', '\\\\', '\\frac', 'a.b-c:', '{[', '[{', '\\begin{itemize}[', '\\mo[', '\\mmix*[']
SCALE_TAILS = ['', '}', ']', '$']
SCALE_N = {'quick': (12, 40), 'thorough': (12, 40, 120)}


def garbage_words(maxlen=2):
    out = ['']
    for n in range(1, maxlen + 1):
        for w in itertools.product(words.SIGMA_R, repeat=n):
            out.append(''.join(w))
    return out


LEGACY_DECLARED = ('lst', 'ltx', 'lmx')     # macros of context A declared through args_parser=MacroStandardArgsParser(...)


def _diff_cause(strict_nodes, ctx):
    """Cause tag (identifies a defect, not an input): the strict parse contains a call of a macro declared through the
    pylatexenc-2 MacroStandardArgsParser one of whose brace arguments is missing because the enclosing group closes - the
    legacy parser then records an empty dummy argument (documented pylatexenc-2 behaviour, strict_braces=False)."""
    if ctx != 'A':
        return None
    for n in canon.iter_nodes(strict_nodes):
        if canon.kind_of(n) == 'macro' and n.macroname in LEGACY_DECLARED and n.nodeargd is not None:
            for a in (n.nodeargd.argnlist or []):
                if a is not None and canon.kind_of(a) == 'chars' and a.chars == '' and a.pos == a.pos_end:
                    return 'legacy-args-parser-dummy-for-missing-brace-argument'
    return None


def plan(tier):
    spec = SPECS[tier]
    shards = [('be', sh) for sh in sweeps.shards(spec)]
    shards += [('scale', hi) for hi in range(len(SCALE_HEADS))]
    ddrule = ('; termination under repetition: head . unit^n . tail for %d heads x %d units x %d tails, n in %r, default and custom context, '
              'tolerant and legacy entry points, CPU budget %ds per parse' % (len(SCALE_HEADS), len(SCALE_UNITS), len(SCALE_TAILS), SCALE_N[tier], 4))
    try:
        from mc import docgen
        shards += [('suffix', sh) for sh in docgen.shards(tier, purpose='prefix')]
        ddrule += ('; fault part: ' + docgen.describe(tier, purpose='prefix') + ' (those ending in a closed construct) followed by each stray '
                  'closer of %r and each garbage word of length <= 1 over the raw alphabet (<= 2 for single-item documents in the '
                  'thorough tier)' % (CLOSERS,))
    except ImportError:
        pass
    return dict(
        shards=shards, bounds=dict(spec, closers=CLOSERS),
        rule=(sweeps.describe(spec) + ', parsed with tolerant_parsing=True and compared with the strict parse' + ddrule +
              '.  non-trivial = words the strict parser rejects (tolerant recovery actually exercised) plus strictly accepted '
              'words with a non-chars node; distinct by construction.'),
        assumptions=['"nodes parsed before the first syntax error" is decided on documents U.closer.garbage where U is well formed by construction'],
    )


def check_word(s, ctx, acc, sub='be'):
    case = dict(s=s, ctx=ctx)
    acc.count('evaluations')
    st, res = run_guarded(contexts.parse, s, ctx, True)
    if st == 'timeout':
        acc.violation(ID, sub, case, dict(kind='hang'))
        return None
    if st == 'exc':
        acc.violation(ID, sub, case, dict(kind='exception', exc=type(res).__name__, frame=exc_frame(res)),
                      observed=repr(res)[:300])
        return None
    lw, tnodes = res
    tc = canon.canon_node(tnodes)
    # the pylatexenc-2 style entry point must be total as well
    st3, res3 = run_guarded(_legacy_get_latex_nodes, s, ctx)
    if st3 != 'ok':
        acc.violation(ID, sub, case, dict(kind='hang' if st3 == 'timeout' else 'exception', via='get_latex_nodes',
                                          exc=type(res3).__name__ if st3 == 'exc' else None,
                                          frame=exc_frame(res3) if st3 == 'exc' else None), observed=repr(res3)[:300])
    st2, res2 = run_guarded(contexts.parse, s, ctx, False)
    if st2 == 'ok':
        acc.count('strict_accepted')
        sc = canon.canon_node(res2[1])
        if any(k != 'chars' for k in (canon.kind_of(n) for n in canon.iter_nodes(res2[1]))):
            acc.count('nontrivial')
        if tc != sc:
            acc.violation(ID, sub, case, dict(kind='tolerant-differs-from-strict', cause=_diff_cause(res2[1], ctx)),
                          observed=repr(tc)[:600], expected=repr(sc)[:600])
    else:
        acc.count('strict_rejected')
        acc.count('nontrivial')
        acc.outcome(('recovered', canon.shape(tc)))
        if tnodes is None:
            acc.count('tolerant_none_on_invalid')
    return tnodes


def _legacy_get_latex_nodes(s, ctx):
    from pylatexenc.latexwalker import LatexWalker
    lw = LatexWalker(s, latex_context=contexts.get(ctx), tolerant_parsing=True)
    return lw.get_latex_nodes()


def check_suffix(doc_text, ctx, closer, garbage, expected_prefix, acc):
    s = doc_text + closer + garbage
    case = dict(s=s, ctx=ctx, doc=doc_text, closer=closer, garbage=garbage)
    acc.count('evaluations')
    acc.count('nontrivial')
    st, res = run_guarded(contexts.parse, s, ctx, True)
    if st == 'timeout':
        acc.violation(ID, 'suffix', case, dict(kind='hang'))
        return
    if st == 'exc':
        acc.violation(ID, 'suffix', case, dict(kind='exception', exc=type(res).__name__, frame=exc_frame(res)),
                      observed=repr(res)[:300])
        return
    lw, tnodes = res
    if tnodes is None:
        acc.violation(ID, 'suffix', case, dict(kind='pre-error-content-lost', how='result is None'))
        return
    tc = canon.canon_node(tnodes)
    got = tc[3][:len(expected_prefix)]
    acc.outcome(('suffix', closer, canon.shape(tc)))
    if got != expected_prefix:
        # the last node of U may legitimately absorb following whitespace/characters if it is a chars node;
        # documents for this purpose end in a closed construct, so an exact prefix is required.
        acc.violation(ID, 'suffix', case, dict(kind='pre-error-content-lost', how='leading nodes differ', closer=closer),
                      observed=repr(got)[:600], expected=repr(expected_prefix)[:600])


def _expected_prefix(doc_text, ctx):
    st, res = run_guarded(contexts.parse, doc_text, ctx, False)
    if st != 'ok':
        return None
    return canon.canon_node(res[1])[3]


def check_scale(s, ctx, acc):
    case = dict(s=s, ctx=ctx)
    acc.count('evaluations')
    acc.count('nontrivial')
    acc.count('scale_inputs')
    import sys
    for via, fn in (('parse_content', lambda: contexts.parse(s, ctx, True)), ('get_latex_nodes', lambda: _legacy_get_latex_nodes(s, ctx))):
        old = sys.getrecursionlimit()
        sys.setrecursionlimit(1000)        # CPython's default (the engine's workers raise it for their own needs)
        try:
            st, res = run_guarded(fn)
        finally:
            sys.setrecursionlimit(old)
        if st == 'timeout':
            acc.violation(ID, 'scale', case, dict(kind='hang', via=via))
            return
        if st == 'exc':
            sig = dict(kind='exception', via=via, exc=type(res).__name__)
            if not isinstance(res, RecursionError):
                sig['frame'] = exc_frame(res)       # where the interpreter's recursion limit happens to be hit is arbitrary
            acc.violation(ID, 'scale', case, sig, observed=repr(res)[:300])
            return


def run_shard(shard, tier, acc):
    sub, sh = shard
    if sub == 'scale':
        head = SCALE_HEADS[sh]
        for unit in SCALE_UNITS:
            for tail in SCALE_TAILS:
                for n in SCALE_N[tier]:
                    for ctx in ('D', 'A'):
                        check_scale(head + unit * n + tail, ctx, acc)
        acc.sample(dict(head=head, units=len(SCALE_UNITS), n=list(SCALE_N[tier])), force=(sh == 1))
    elif sub == 'be':
        for s, ctx in sweeps.iter_shard(SPECS[tier], sh):
            check_word(s, ctx, acc)
            acc.sample(dict(s=s, ctx=ctx))
    else:
        from mc import docgen
        gw1, gw2 = garbage_words(1), garbage_words(2)
        for doc in docgen.iter_shard(tier, sh, purpose='prefix'):
            gw = gw2 if (len(doc.items) == 1 and tier == 'thorough') else gw1
            if tier == 'thorough' and len(doc.items) >= 2 and len(doc.text) > 8:
                gw = ['', 'a', '}', '\\', ' ']        # the largest documents get a reduced garbage set
            for sp in ('', ' ', '\n'):
                # U may be followed by whitespace before the stray closer: that whitespace is content
                # parsed before the error as well
                text = doc.text + sp
                exp = _expected_prefix(text, doc.ctx)
                if exp is None:
                    acc.count('prefix_docs_not_strictly_parseable')   # C02 decides that
                    continue
                acc.count('prefix_docs')
                for closer in CLOSERS:
                    if sp and closer == ']':
                        continue     # ']' is an ordinary character at top level and merges with the whitespace
                    for g in (gw if not sp else gw1[:4]):
                        check_suffix(text, doc.ctx, closer, g, exp, acc)
                # a lone escape character at the very end of the input is an error as well
                check_suffix(text, doc.ctx, '\\', '', exp, acc)
            acc.sample(dict(doc=doc.text, ctx=doc.ctx))


def replay(sub, case):
    if sub == 'scale':
        acc = engine.Acc()
        check_scale(case['s'], case['ctx'], acc)
        return acc.violations
    acc = engine.Acc()
    if sub == 'be':
        check_word(case['s'], case['ctx'], acc)
    else:
        exp = _expected_prefix(case['doc'], case['ctx'])
        check_suffix(case['doc'], case['ctx'], case['closer'], case['garbage'], exp, acc)
    return acc.violations


def finish(tier, merged, plan):
    errs = []
    c = merged.counts
    if c['strict_rejected'] < 1000 or c['strict_accepted'] < 1000:
        errs.append('sanity floor: strict accepted=%d rejected=%d' % (c['strict_accepted'], c['strict_rejected']))
    return errs
