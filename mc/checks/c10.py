# -*- coding: utf-8 -*-
r"""C10 - each node's math/text mode is the one implied by the enclosing structure.

(a) DD: generated documents with nested math, \text-in-math, \ensuremath, math environments,
    groups: every node's (in_math_mode, math_mode_delimiter), displaytype and delimiters are
    compared with the inherited-attribute computation on the derivation.
(b) BE: all words over {$, a, {, }, space, \(, \), \[, \]} up to a length bound against a
    reference recursive-descent parser: accept/reject, tree shape, delimiters, modes.
"""
from mc import engine, contexts, docgen, words, canon
from mc.engine import run_guarded, exc_frame
from mc.ref import mathlang
from mc.checks.c02 import first_diff, diff_kind

ID = 'C10'
LEVEL = 'exploration'
TECHNIQUE = 'bounded-exhaustive words against a reference parser + exhaustive derivations with modes known by construction'

BOUNDS = {'quick': dict(N=6, deep=4), 'thorough': dict(N=7, deep=5)}
NSL = 32

MATH_CALLS = {'text', 'ensuremath', 'frac', 'equation', 'textbf', 'MATH'}
_DEEP = {}


def deep_docs(size):
    if size not in _DEEP:
        g = docgen.Grammar('D', cmax=0, calls=MATH_CALLS, minimal=True)
        L = []
        for n in range(size + 1):
            L.extend(g.lists(n, False, False))
        _DEEP[size] = L
    return _DEEP[size]


# ---- constructs whose one delta both switches the mode and extends the context (custom context X)

def scoped_docs(depth, mode, scope):
    """Documents whose every character is 'm' where math mode is implied and 't' where text mode is implied.
    scope = names of the body-local macros defined at this point."""
    leaf = 'm' if mode else 't'
    out = [leaf]
    if depth == 0:
        return out
    inner_sets = []
    wr = [('{', '}', mode, scope), ('\\begin{elist}', '\\end{elist}', mode, scope | {'xitem'}),
          ('\\begin{emx}', '\\end{emx}', True, scope | {'lm'}), ('\\tx{', '}', False, scope | {'lt'}),
          ('\\textbf{', '}', mode, scope)]
    if not mode:
        wr.append(('$', '$', True, scope))
        wr.append(('\\[', '\\]', True, scope))
    for name in sorted(scope & {'lm', 'lt'}):
        wr.append(('\\%s{' % name, '}', mode, scope))
    for (op, cl, m2, sc2) in wr:
        for inner in scoped_docs(depth - 1, m2, sc2):
            out.append(leaf + op + inner + cl + leaf)
    return out


def check_scoped(s, acc):
    case = dict(s=s, ctx='X')
    acc.count('evaluations')
    acc.count('nontrivial')
    acc.count('scoped_docs')
    st, res = run_guarded(contexts.parse, s, 'X', False)
    if st != 'ok':
        acc.violation(ID, 'scoped', case, dict(kind='scoped-document-does-not-parse', exc=type(res).__name__ if st == 'exc' else st),
                      observed=repr(res)[:300])
        return

    def walk(nodes):
        prev = None
        for n in nodes or []:
            if n is None:
                continue
            k = canon.kind_of(n)
            got = bool(n.parsing_state.in_math_mode)
            if k == 'chars':
                letters = set(n.chars)
                if letters - {'m', 't'} or len(letters) != 1:
                    return dict(kind='scoped-structure-differs', chars=n.chars[:20])
                prev = (letters == {'m'})
                if got != prev:
                    return dict(kind='mode-differs-from-enclosing-structure', node='chars', expected_math=prev)
            else:
                if prev is not None and got != prev:
                    return dict(kind='mode-differs-from-enclosing-structure', node=k, name=getattr(n, 'macroname', getattr(n, 'environmentname', None)),
                                expected_math=prev)
                if getattr(n, 'nodeargd', None) is not None and n.nodeargd.argnlist:
                    for a in n.nodeargd.argnlist:
                        if a is not None:
                            r = walk([a])
                            if r:
                                return r
                if k in ('group', 'environment', 'math'):
                    r = walk(n.nodelist)
                    if r:
                        return r
        return None
    bad = walk(res[1])
    if bad:
        acc.violation(ID, 'scoped', case, bad)


def plan(tier):
    b = BOUNDS[tier]
    shards = [('be', sh) for sh in words.prefix_shards(words.SIGMA_M, b['N'], 2)]
    shards += [('dd', sh) for sh in docgen.shards(tier)]
    shards += [('deep', k) for k in range(NSL)]
    shards += [('scoped', k) for k in range(8)]
    return dict(
        shards=shards, bounds=dict(b, alphabet=words.SIGMA_M, deep_calls=sorted(MATH_CALLS), scoped_depth=3 if tier == 'quick' else 4),
        rule=('(b) every word of length <= %d over the 9-symbol math alphabet, default context, strict parse, compared with the '
              'reference parser mc/ref/mathlang.py (accept/reject; skeleton with delimiters, displaytype and per-node mode); '
              '(a) ' % b['N'] + docgen.describe(tier) + ', plus all derivations of size <= %d of the math-nesting grammar '
              '(text, symbol, groups, the four formula forms, \\text, \\textbf, \\ensuremath, \\frac, equation; no deviations); '
              'every node mode compared with the derivation; (c) all nestings to depth 3 (4) of groups, formulas and custom constructs whose single '
              'delta both switches the mode and extends the context (math environment / text-mode argument defining body-local macros, '
              'context-extending environment), every character of the document naming the mode it must be recorded in.  non-trivial = cases containing at least one formula; '
              'cases are distinct by construction.' % b['deep']),
        assumptions=['the reference parser encodes the documented delimiter rules (expected closing delimiter first, then longest match)'],
    )


def has_math(sk):
    if isinstance(sk, tuple):
        if sk and sk[0] == 'm':
            return True
        if sk and sk[0] == 'E' and sk[1] in ('equation', 'emath'):
            return True
        return any(has_math(x) for x in sk)
    return False


def check_word(s, acc):
    from pylatexenc.latexwalker import LatexWalkerParseError
    case = dict(s=s)
    acc.count('evaluations')
    try:
        exp = mathlang.parse(s)
    except mathlang.Reject as e:
        exp = None
    st, res = run_guarded(contexts.parse, s, 'D', False)
    if st == 'timeout':
        acc.violation(ID, 'be', case, dict(kind='hang'))
        return
    if st == 'exc':
        if not isinstance(res, LatexWalkerParseError):
            acc.violation(ID, 'be', case, dict(kind='wrong-exception', exc=type(res).__name__, frame=exc_frame(res)))
            return
        acc.count('rejected')
        if exp is not None:
            acc.violation(ID, 'be', case, dict(kind='valid-math-rejected'), observed=str(res)[:200], expected=repr(exp)[:600])
        return
    got = docgen.skel_of_tree(res[1])
    acc.count('accepted')
    if exp is None:
        acc.violation(ID, 'be', case, dict(kind='invalid-math-accepted'), observed=repr(got)[:600])
        return
    if has_math(exp):
        acc.count('nontrivial')
    acc.outcome(docgen.strip_modes(got))
    if got != exp:
        kind = 'structure-differs' if docgen.strip_modes(got) != docgen.strip_modes(exp) else 'mode-differs'
        acc.violation(ID, 'be', case, dict(kind=kind, diff=diff_kind(exp, got)), observed=repr(got)[:800], expected=repr(exp)[:800])


def check_doc(doc, acc, sub='dd'):
    case = dict(ctx=doc.ctx, s=doc.text, items=repr(doc.items), devs={str(k): v for k, v in doc.devs.items()})
    if doc.ctx == 'A0' and doc.uses_unknown:
        return
    acc.count('evaluations')
    st, res = run_guarded(contexts.parse, doc.text, doc.ctx, False)
    if docgen.bracket_under_nested_pair(doc.items):
        acc.count('dd_known_c02_finding')   # recorded C02 finding: structure is not what was written
        return
    if st != 'ok':
        acc.count('dd_not_parsed')          # C02 decides that
        return
    got = docgen.skel_of_tree(res[1])
    exp = doc.skel
    if has_math(exp):
        acc.count('nontrivial')
        acc.count('dd_with_math')
    acc.outcome(('dd', got))
    if got != exp:
        if docgen.strip_modes(got) != docgen.strip_modes(exp):
            acc.count('dd_structure_differs')   # C02 decides structure
            acc.count('dd_structure_differs: %s %r' % (doc.ctx, doc.text[:120]))
            return
        d = first_diff(exp, got)
        acc.violation(ID, sub, case, dict(kind='mode-differs', ctx=doc.ctx,
                                          where=repr(d[1])[:60] + '->' + repr(d[2])[:60] if d else None),
                      observed=repr(got)[:800], expected=repr(exp)[:800])


def run_shard(shard, tier, acc):
    if shard[0] == 'scoped':
        docs = scoped_docs(3 if tier == 'quick' else 4, False, frozenset())
        for s in docs[shard[1]::8]:
            check_scoped(s, acc)
        return
    sub, sh = shard
    b = BOUNDS[tier]
    if sub == 'be':
        for w in words.iter_shard(words.SIGMA_M, b['N'], sh):
            s = words.render(words.SIGMA_M, w)
            check_word(s, acc)
            acc.sample(dict(s=s))
    elif sub == 'dd':
        for doc in docgen.iter_shard(tier, sh):
            check_doc(doc, acc)
            acc.sample(dict(ctx=doc.ctx, s=doc.text))
    else:
        L = deep_docs(b['deep'])
        for idx in range(sh, len(L), NSL):
            doc = docgen.render(L[idx], 'D')
            if doc.valid:
                acc.count('deep_docs')
                check_doc(doc, acc, sub='deep')
                acc.sample(dict(ctx='D', s=doc.text))


def replay(sub, case):
    if sub == 'scoped':
        acc = engine.Acc()
        check_scoped(case['s'], acc)
        return acc.violations
    acc = engine.Acc()
    if sub == 'be':
        check_word(case['s'], acc)
    else:
        items = eval(case['items'], {'__builtins__': {}}, {})
        devs = {int(k): v for k, v in case.get('devs', {}).items()}
        doc = docgen.render(items, case['ctx'], devs)
        check_doc(doc, acc, sub)
    return acc.violations


def finish(tier, merged, plan):
    errs = []
    c = merged.counts
    if c['accepted'] < 1000 or c['rejected'] < 1000:
        errs.append('sanity floor: accepted=%d rejected=%d' % (c['accepted'], c['rejected']))
    if c['dd_with_math'] < 1000 or c['deep_docs'] < 1000:
        errs.append('sanity floor: dd_with_math=%d deep_docs=%d' % (c['dd_with_math'], c['deep_docs']))
    if c['dd_structure_differs'] or c['dd_not_parsed']:
        errs.append('generated documents not parsed as written (%d / %d): see C02; %s' % (
            c['dd_structure_differs'], c['dd_not_parsed'], [k for k in c if k.startswith('dd_structure_differs: ')][:5]))
    return errs
