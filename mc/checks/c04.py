# -*- coding: utf-8 -*-
"""C04 - encoder output equals the documented rule semantics.

BE over strings x rule lists x configurations against the reference encoder mc/ref/encoder.py
(exact output; exact exception behaviour: nothing but ValueError, only under 'fail');
homomorphism for the per-character default rules; PartialLatexToLatexEncoder = reference
with one extra first rule (copy one LaTeX token at a keep character); ES: all call
sequences of the cached module-level helper compared with fresh encoders.
"""
import re
import itertools
import unicodedata

from mc import engine
from mc.engine import run_guarded, exc_frame
from mc.ref import encoder as ref

ID = 'C04'
LEVEL = 'exploration'
TECHNIQUE = 'bounded-exhaustive strings x rule lists x configurations against a reference encoder; call-history exploration of the cached helper'

SYMS = ['a', 'b', '%', '\\', '\u00e9', 'e\u0301', '\u00f8', '\u20ac', '\u0001', '\u0378', '\U0001d400', ' ']
PSYMS = ['a', '\u00e9', '\\', '$', '{', '}', '^', ' ', '%', '\\begin', '{a}', '\u00f8', '\\alpha', 'e\u0301']
BOUNDS = {'quick': dict(NA=3, NB=2, NP=3, NH=3), 'thorough': dict(NA=4, NB=3, NP=4, NH=4)}


def _prot_callable(repl):
    return '<' + repl + '>'


def _unk_callable(ch):
    return '[U%d]' % ord(ch)


PROTS = ['braces', 'braces-all', 'braces-almost-all', 'braces-after-macro', 'none', _prot_callable]
UNKS = ['keep', 'replace', 'ignore', 'fail', 'unihex', _unk_callable]
CONFIGS = [(p, u, n) for p in PROTS for u in UNKS for n in (False, True)]
# two-rule lists: every protection x {keep, fail, unihex} x non_ascii_only (rule order does not interact with the other policies' texts)
CONFIGS_PAIR = [c for c in CONFIGS if c[1] in ('keep', 'fail', 'unihex')]


def _c1(s, pos):
    if s[pos] == 'a':
        return (1, '\\cc')
    return None


def _c2(s, pos):
    if s[pos:pos + 2] == 'b%':
        return (2, 'Y')
    return None


def _c3(s, pos, u2lobj):
    # a callable rule that asks for the encoder object
    if s[pos] == 'b':
        return (1, '\\bb' if u2lobj is not None else '\\NOOBJ')
    return None


def compat_active_chars():
    act = set('\\{}$%&#_^~')
    return [chr(cp) for cp in range(0x80, 0x30000)
            if not (0xd800 <= cp <= 0xdfff) and (set(unicodedata.normalize('NFKC', chr(cp))) & act)]


def rule_menu():
    """list of (name, library rule factory(own_protection), reference matcher)"""
    from pylatexenc import latexencode as le
    d1 = {ord('a'): 'A', 0xe9: "\\'e"}
    d2 = {ord('b'): '\\beta'}
    r3 = [(re.compile(r'ab'), 'X')]
    r4 = [(re.compile(r'a(b)'), r'\1\\x\1')]
    r5 = [(re.compile('\u00e9|%'), lambda m: '\\E' + str(len(m.group(0))))]
    d3 = {ord('a'): 'Z', ord('b'): '\\V', 0xe9: 'EE', 0x20ac: '\\EUR'}   # overlaps d1, d2 and the defaults: the FIRST rule of a list wins
    r7 = [(re.compile(r'[ab]+'), r'<\g<0>>'), (re.compile('\u00e9'), r'\g<0>!')]    # group-less patterns whose template quotes the match itself
    defaults = le.get_builtin_uni2latex_dict()
    r6 = [(re.compile(r'(?<=a)b'), 'Q'), (re.compile(r'^%'), 'P'), (re.compile(r'\bb'), 'W')]   # depend on the text to the LEFT
    return [
        ('regex-left-context', lambda own: le.UnicodeToLatexConversionRule(le.RULE_REGEX, r6, replacement_latex_protection=own), ref.regex_matcher(r6)),
        ('dict-a-e', lambda own: le.UnicodeToLatexConversionRule(le.RULE_DICT, d1, replacement_latex_protection=own), ref.dict_matcher(d1)),
        ('dict-b', lambda own: le.UnicodeToLatexConversionRule(le.RULE_DICT, d2, replacement_latex_protection=own), ref.dict_matcher(d2)),
        ('regex-ab', lambda own: le.UnicodeToLatexConversionRule(le.RULE_REGEX, r3, replacement_latex_protection=own), ref.regex_matcher(r3)),
        ('regex-group', lambda own: le.UnicodeToLatexConversionRule(le.RULE_REGEX, r4, replacement_latex_protection=own), ref.regex_matcher(r4)),
        ('regex-callable', lambda own: le.UnicodeToLatexConversionRule(le.RULE_REGEX, r5, replacement_latex_protection=own), ref.regex_matcher(r5)),
        ('callable-1', lambda own: le.UnicodeToLatexConversionRule(le.RULE_CALLABLE, _c1, replacement_latex_protection=own), _c1),
        ('callable-2', lambda own: le.UnicodeToLatexConversionRule(le.RULE_CALLABLE, _c2, replacement_latex_protection=own), _c2),
        ('callable-u2lobj', lambda own: le.UnicodeToLatexConversionRule(le.RULE_CALLABLE, _c3, replacement_latex_protection=own),
         lambda s, pos: _c3(s, pos, True)),
        ('dict-overlap', lambda own: le.UnicodeToLatexConversionRule(le.RULE_DICT, d3, replacement_latex_protection=own), ref.dict_matcher(d3)),
        ('regex-whole-match', lambda own: le.UnicodeToLatexConversionRule(le.RULE_REGEX, r7, replacement_latex_protection=own), ref.regex_matcher(r7)),
        ('defaults', None, ref.dict_matcher(defaults)),
    ]


OWN3 = [None, 'none', 'braces-all']


def strings(n, syms=SYMS):
    for k in range(n + 1):
        for w in itertools.product(syms, repeat=k):
            yield ''.join(w)


def cfgname(c):
    return [getattr(x, '__name__', x) for x in c]


def compare(lib_rules, ref_rules, cfg, s, acc, case, sub):
    from pylatexenc import latexencode as le
    p, u, n = cfg
    enc = lib_rules
    st, res = run_guarded(enc.unicode_to_latex, s)
    acc.count('evaluations')
    try:
        exp = ''.join(ref.encode(s, ref_rules, p, u, n))
        exp_fail = False
    except ref.RefFail:
        exp, exp_fail = None, True
    if st == 'timeout':
        acc.violation(ID, sub, case, dict(kind='hang'))
        return
    if st == 'exc':
        if isinstance(res, ValueError) and exp_fail:
            acc.count('fail_policy_raises')
            return
        acc.violation(ID, sub, case, dict(kind='unexpected-exception', exc=type(res).__name__, frame=exc_frame(res),
                                          policy=cfgname(cfg)[1]), observed=repr(res)[:200], expected=repr(exp))
        return
    if exp_fail:
        acc.violation(ID, sub, case, dict(kind='fail-policy-did-not-raise'), observed=repr(res))
        return
    if unicodedata.normalize('NFC', s) != exp:
        acc.count('nontrivial')
    acc.outcome(res)
    if res != exp:
        acc.violation(ID, sub, case, dict(kind='output-differs-from-documented-semantics',
                                          hint=_hint(res, exp)), observed=repr(res), expected=repr(exp))


def _hint(got, exp):
    if got.replace('{', '').replace('}', '') == exp.replace('{', '').replace('}', ''):
        return 'protection'
    if len(got) < len(exp):
        return 'shorter'
    return 'other'


def make_encoder(rulespec, cfg, menu):
    from pylatexenc import latexencode as le
    p, u, n = cfg
    rules = []
    refrules = []
    for (ri, own) in rulespec:
        name, fac, matcher = menu[ri]
        if fac is None:
            rules.append('defaults')
            refrules.append((matcher, None))
        else:
            rules.append(fac(own))
            refrules.append((matcher, own))
    kw = {}
    if not n:
        kw['unknown_char_warning'] = False      # half of the configurations keep the default (warnings on)
    enc = le.UnicodeToLatexEncoder(conversion_rules=rules, replacement_latex_protection=p,
                                   unknown_char_policy=u, non_ascii_only=n, **kw)
    return enc, refrules


NM = 12    # entries of rule_menu(); the last one is the built-in 'defaults' list (no own protection)


def rule_lists_A():
    nm = NM
    out = [()]
    for i in range(nm):
        for own in OWN3:
            if i == nm - 1 and own is not None:
                continue
            out.append(((i, own),))
            for j in range(nm):
                out.append(((i, own), (j, None)))
    return out


def rule_lists_B(maxlen):
    variants = [(i, own) for i in range(NM) for own in OWN3 if not (i == NM - 1 and own is not None)]
    out = []
    for k in range(0, maxlen + 1):
        for combo in itertools.product(variants, repeat=k):
            out.append(tuple(combo))
    return out


def plan(tier):
    b = BOUNDS[tier]
    la = rule_lists_A()
    lb = rule_lists_B(3)
    shards = [('A', i) for i in range(len(la))]
    shards += [('B', i) for i in range(64)]
    shards += [('chars', i) for i in range(8)] + [('homo', 0), ('partial', 0), ('partial', 1), ('helper', 0), ('chunks', 0), ('nfc', 0), ('nfc', 1), ('alias', 0), ('compat', 0)]
    return dict(
        shards=shards,
        bounds=dict(b, symbols=[repr(x) for x in SYMS], rule_kinds=[m[0] for m in rule_menu()], configs=len(CONFIGS),
                    lists_A=len(la), lists_B=len(lb)),
        rule=('(A) every ordered list of <= 2 rules from a 12-entry menu (3 dicts with overlapping keys, 5 regex rules incl. group expansion, whole-match templates on group-less patterns, callable replacement and left-context patterns, '
              '3 callables (consuming 1 / 2 characters, one asking for the encoder object), the built-in defaults; first rule with own protection in {None, none, braces-all}) x all 72 (two-rule lists in the quick tier: 36) '
              'configurations (6 protections incl. callable x 6 unknown-character policies incl. callable x non_ascii_only) x all strings of length '
              '<= NA over 12 symbols (ASCII, %%, backslash, precomposed and combining accents, symbols with rules, control, unassigned, astral); '
              '(B) every ordered list of <= 3 rule variants x default configuration x strings of length <= NB; every code point of both built-in '
              'tables alone and between neighbours; homomorphism on all splits; partial encoder on strings of length <= NP over 14 LaTeX lexemes; '
              'helper call sequences of length <= NH over 8 option tuples; all strings of length <= 3 over 12 symbols (canonical composition without combining mark: Hangul jamo, Indic vowel parts, singleton; astral characters without a rule) x 72 configurations; caller-mutation histories of length <= 3 on the built-in rule lists handed out by the module; every code point whose compatibility (NFKC) form contains a LaTeX-active ASCII character, in 5 frames x 72 configurations x both tables.  non-trivial = encodes whose output differs from the NFC input.'),
        assumptions=['the reference encoder mc/ref/encoder.py transcribes the documented semantics; the built-in tables are data shared with it',
                     'rules that can match the empty string are excluded (contract: number of characters consumed)'],
    )


def run_shard(shard, tier, acc):
    sub, i = shard
    b = BOUNDS[tier]
    menu = rule_menu()
    if sub == 'A':
        spec = rule_lists_A()[i]
        strs = list(strings(b['NA']))
        for cfg in (CONFIGS if len(spec) <= 1 or tier != 'quick' else CONFIGS_PAIR):
            enc, refrules = make_encoder(spec, cfg, menu)
            for s in strs:
                compare(enc, refrules, cfg, s, acc, dict(rules=[[r, o] for r, o in spec], cfg=cfgname(cfg), s=s), 'A')
        acc.sample(dict(rules=[[menu[r][0], o] for r, o in spec], configs=len(CONFIGS), strings=len(strs)), force=(i % 40 == 3))
    elif sub == 'B':
        lb = rule_lists_B(3)
        strs = list(strings(b['NB']))
        cfg = ('braces', 'keep', False)
        for spec in lb[i::64]:
            enc, refrules = make_encoder(spec, cfg, menu)
            for s in strs:
                compare(enc, refrules, cfg, s, acc, dict(rules=[[r, o] for r, o in spec], cfg=cfgname(cfg), s=s), 'B')
    elif sub == 'chars':
        from pylatexenc import latexencode as le
        from pylatexenc.latexencode import _uni2latexmap_xml
        for tname, table in (('defaults', le.get_builtin_uni2latex_dict()), ('unicode-xml', _uni2latexmap_xml.uni2latex)):
            cps = sorted(table.keys())[i::8]
            for cfg in [CONFIGS[0], CONFIGS[13], CONFIGS[29], CONFIGS[40], CONFIGS[55], CONFIGS[71]]:
                enc = le.UnicodeToLatexEncoder(conversion_rules=[tname], replacement_latex_protection=cfg[0],
                                               unknown_char_policy=cfg[1], non_ascii_only=cfg[2], unknown_char_warning=False)
                refrules = [(ref.dict_matcher(table), None)]
                for cp in cps:
                    for s in (chr(cp), 'a' + chr(cp) + 'b', chr(cp) + chr(cp), '\\' + chr(cp) + '{', chr(cp) + '\u0301'):
                        compare(enc, refrules, cfg, s, acc, dict(table=tname, cfg=cfgname(cfg), s=s), 'chars')
    elif sub == 'homo':
        from pylatexenc import latexencode as le
        for cfg in [CONFIGS[0], CONFIGS[25], CONFIGS[44], CONFIGS[63]]:
            enc = le.UnicodeToLatexEncoder(replacement_latex_protection=cfg[0], unknown_char_policy=cfg[1] if cfg[1] != 'fail' else 'keep',
                                           non_ascii_only=cfg[2], unknown_char_warning=False)
            for s in strings(b['NA']):
                for k in range(1, len(s)):
                    x, y = s[:k], s[k:]
                    if unicodedata.normalize('NFC', s) != unicodedata.normalize('NFC', x) + unicodedata.normalize('NFC', y):
                        continue
                    acc.count('evaluations')
                    st, res = run_guarded(lambda: (enc.unicode_to_latex(s), enc.unicode_to_latex(x) + enc.unicode_to_latex(y)))
                    if st != 'ok' or res[0] != res[1]:
                        acc.violation(ID, 'homo', dict(cfg=cfgname(cfg), s=s, k=k), dict(kind='not-a-homomorphism'),
                                      observed=repr(res))
    elif sub == 'nfc':
        # canonical composition that involves no combining mark (Hangul jamo, Indic two-part vowels, singleton decompositions)
        from pylatexenc import latexencode as le
        table = le.get_builtin_uni2latex_dict()
        refrules = [(ref.dict_matcher(table), None)]
        for cfg in CONFIGS[i::2]:
            enc = le.UnicodeToLatexEncoder(replacement_latex_protection=cfg[0], unknown_char_policy=cfg[1], non_ascii_only=cfg[2],
                                           unknown_char_warning=False)
            for s in strings(3, NFC_SYMS):
                compare(enc, refrules, cfg, s, acc, dict(table='defaults', cfg=cfgname(cfg), s=s), 'chars')
    elif sub == 'compat':
        # every code point without an ASCII spelling of its own whose COMPATIBILITY form contains a LaTeX-active ASCII character
        # (full-width, small and vertical forms): the encoder normalises canonically (NFC) only
        from pylatexenc import latexencode as le
        for tname, table in (('defaults', le.get_builtin_uni2latex_dict()), ('unicode-xml', __import__('pylatexenc.latexencode._uni2latexmap_xml', fromlist=['x']).uni2latex)):
            refrules = [(ref.dict_matcher(table), None)]
            for cfg in CONFIGS:
                enc = le.UnicodeToLatexEncoder(conversion_rules=[tname], replacement_latex_protection=cfg[0], unknown_char_policy=cfg[1],
                                               non_ascii_only=cfg[2], unknown_char_warning=False)
                for c in compat_active_chars():
                    for s_ in (c, 'a' + c + 'b', c + c, c + '\n', '{' + c + '}'):
                        compare(enc, refrules, cfg, s_, acc, dict(table=tname, cfg=cfgname(cfg), s=s_), 'chars')
    elif sub == 'alias':
        check_alias(acc)
    elif sub == 'partial':
        check_partial(b, i, acc)
    elif sub == 'helper':
        check_helper(b, acc)
    elif sub == 'chunks':
        from pylatexenc import latexencode as le

        class Chunks(object):
            def __init__(self):
                self.chunks = []

            def __iadd__(self, s):
                self.chunks.append(s)
                return self
        enc = le.UnicodeToLatexEncoder(latex_string_class=Chunks, unknown_char_warning=False)
        enc0 = le.UnicodeToLatexEncoder(unknown_char_warning=False)
        refrules = [(ref.dict_matcher(le.get_builtin_uni2latex_dict()), None)]
        for s in strings(b['NA']):
            acc.count('evaluations')
            st, res = run_guarded(enc.unicode_to_latex, s)
            exp = ref.encode(s, refrules)
            if st != 'ok' or res.chunks != exp or ''.join(res.chunks) != enc0.unicode_to_latex(s):
                acc.violation(ID, 'chunks', dict(s=s), dict(kind='custom-result-class-differs'),
                              observed=repr(getattr(res, 'chunks', res)), expected=repr(exp))


def _partial_matcher(keep):
    from pylatexenc.latexnodes import LatexTokenReader, LatexWalkerTokenParseError, LatexWalkerEndOfStream
    from pylatexenc.latexwalker import LatexWalker

    def m(s, i):
        if s[i] not in keep:
            return None
        lw = LatexWalker(s, tolerant_parsing=False)
        tr = LatexTokenReader(s, tolerant_parsing=False)
        tr.move_to_pos_chars(i)
        try:
            tok = tr.peek_token(parsing_state=lw.make_parsing_state())
        except (LatexWalkerTokenParseError, LatexWalkerEndOfStream):
            return None     # not a well-formed LaTeX token: ordinary text
        return (tok.pos_end - i, tok.pre_space + s[tok.pos:tok.pos_end])
    return m


def check_partial(b, which, acc):
    from pylatexenc import latexencode as le
    defaults = ref.dict_matcher(le.get_builtin_uni2latex_dict())
    setups = [dict(), dict(keep_latex_chars='\\{}')] if which == 0 else \
        [dict(replacement_latex_protection='braces-all', unknown_char_policy='unihex'), dict(non_ascii_only=True)]
    for kw in setups:
        keep = kw.get('keep_latex_chars', '\\${}^_')
        enc = le.PartialLatexToLatexEncoder(unknown_char_warning=False, **kw)
        refrules = [(_partial_matcher(keep), 'none'), (defaults, None)]
        cfg = (kw.get('replacement_latex_protection', 'braces'), kw.get('unknown_char_policy', 'keep'), kw.get('non_ascii_only', False))
        for s in strings(b['NP'], PSYMS):
            compare(enc, refrules, cfg, s, acc, dict(partial=kw, s=s), 'partial')
        acc.sample(dict(partial=kw, strings='all of length <= %d over %r' % (b['NP'], PSYMS)), force=True)


HELPER_OPTS = [dict(), dict(non_ascii_only=True), dict(replacement_latex_protection='braces-all'),
               dict(unknown_char_policy='replace'), dict(replacement_latex_protection='none', unknown_char_policy='unihex'),
               dict(non_ascii_only=True, replacement_latex_protection='braces-after-macro'),
               dict(non_ascii_only=False, unknown_char_warning=True), dict(non_ascii_only=True, unknown_char_warning=False)]
NFC_SYMS = ['a', '\u1100', '\u1161', '\u11a8', '\u09c7', '\u09be', '\u212b', '\u0301', 'e', '\U0001f600', '\U00020000', '\U0010ffff']
ALIAS_STRS = ['a\u00e9%\u0378', '\u00f8b\\', 'ab', '\u20ac~']


def check_alias(acc, only=None):
    """Objects handed out by the module (built-in rule lists) are mutated by the caller; encoders built afterwards
    must still have the documented built-in rules."""
    from pylatexenc import latexencode as le
    from pylatexenc.latexencode import _uni2latexmap_xml
    refs = {'defaults': [(ref.dict_matcher(dict(le.get_builtin_uni2latex_dict())), None)],
            'unicode-xml': [(ref.dict_matcher(dict(_uni2latexmap_xml.uni2latex)), None)]}
    cfg = ('braces', 'keep', False)

    def op_insert(name):
        r = le.get_builtin_conversion_rules(name)
        r.insert(0, le.UnicodeToLatexConversionRule(le.RULE_DICT, {ord('a'): 'X', 0xe9: 'Y'}))

    def op_clear(name):
        r = le.get_builtin_conversion_rules(name)
        del r[:]

    def op_encode(name):
        le.UnicodeToLatexEncoder(conversion_rules=[name], unknown_char_warning=False).unicode_to_latex('a\u00e9')
    ops = [('insert', op_insert), ('clear', op_clear), ('encode', op_encode)]
    menu = [(on, of, tn) for (on, of) in ops for tn in ('defaults', 'unicode-xml')]

    def history(seq):
        # runs in a forked child: the module state is that of a process that never handed out a rule list
        a2 = engine.Acc()
        names = [menu[j][0] + ':' + menu[j][2] for j in seq]
        for step, mi in enumerate(seq):
            on, of, tn = menu[mi]
            st, res = run_guarded(of, tn)
            if st != 'ok':
                a2.violation(ID, 'alias', dict(seq=names, step=step),
                             dict(kind='unexpected-exception', exc=type(res).__name__ if st == 'exc' else st))
                break
            for tname in ('defaults', 'unicode-xml'):
                enc = le.UnicodeToLatexEncoder(conversion_rules=[tname], unknown_char_warning=False)
                for s in ALIAS_STRS:
                    compare(enc, refs[tname], cfg, s, a2, dict(seq=names, step=step, table=tname, s=s), 'alias')
        return a2
    for k in (1, 2, 3):
        for seq in itertools.product(range(len(menu)), repeat=k):
            if only is not None and [menu[j][0] + ':' + menu[j][2] for j in seq] != only:
                continue
            acc.count('alias_histories')
            a2 = engine.in_child(history, seq)
            if a2 is None:
                acc.violation(ID, 'alias', dict(seq=[menu[j][0] + ':' + menu[j][2] for j in seq]), dict(kind='child-crashed'))
            else:
                acc.merge(a2)


HELPER_STRS = ['a\u00e9%\u0378', '\u00f8b\\', '']


def _helper_history(seq):
    """Runs in a forked child whose parent never called the module-level helper (cache empty)."""
    from pylatexenc import latexencode as le
    bad = []
    for step, oi in enumerate(seq):
        kw = dict(dict(unknown_char_warning=False), **HELPER_OPTS[oi])
        for s in HELPER_STRS:
            try:
                got = le.unicode_to_latex(s, **kw)
            except Exception as e:
                got = 'raised ' + type(e).__name__
            exp = le.UnicodeToLatexEncoder(**kw).unicode_to_latex(s)
            if got != exp:
                bad.append((step, s, got, exp))
    return bad


def check_helper(b, acc, only=None):
    n = len(HELPER_OPTS)
    for k in range(1, b['NH'] + 1):
        for seq in itertools.product(range(n), repeat=k):
            if only is not None and list(seq) != only:
                continue
            acc.count('evaluations')
            acc.count('helper_histories')
            bad = engine.in_child(_helper_history, seq)
            if bad is None:
                acc.violation(ID, 'helper', dict(seq=list(seq)), dict(kind='child-crashed'))
                continue
            for (step, s, got, exp) in bad[:1]:
                acc.violation(ID, 'helper', dict(seq=list(seq), step=step, s=s),
                              dict(kind='cached-helper-differs-from-fresh-encoder'), observed=repr(got), expected=repr(exp))


def replay(sub, case):
    acc = engine.Acc()
    menu = rule_menu()
    b = BOUNDS['thorough']
    if sub in ('A', 'B'):
        cfgn = case['cfg']
        cfg = next(c for c in CONFIGS if cfgname(c) == cfgn)
        spec = tuple((r, o) for r, o in case['rules'])
        enc, refrules = make_encoder(spec, cfg, menu)
        compare(enc, refrules, cfg, case['s'], acc, case, sub)
    elif sub == 'chars':
        from pylatexenc import latexencode as le
        from pylatexenc.latexencode import _uni2latexmap_xml
        table = le.get_builtin_uni2latex_dict() if case['table'] == 'defaults' else _uni2latexmap_xml.uni2latex
        cfg = next(c for c in CONFIGS if cfgname(c) == case['cfg'])
        enc = le.UnicodeToLatexEncoder(conversion_rules=[case['table']], replacement_latex_protection=cfg[0],
                                       unknown_char_policy=cfg[1], non_ascii_only=cfg[2], unknown_char_warning=False)
        compare(enc, [(ref.dict_matcher(table), None)], cfg, case['s'], acc, case, sub)
    elif sub == 'partial':
        from pylatexenc import latexencode as le
        kw = case['partial']
        keep = kw.get('keep_latex_chars', '\\${}^_')
        enc = le.PartialLatexToLatexEncoder(unknown_char_warning=False, **kw)
        refrules = [(_partial_matcher(keep), 'none'), (ref.dict_matcher(le.get_builtin_uni2latex_dict()), None)]
        cfg = (kw.get('replacement_latex_protection', 'braces'), kw.get('unknown_char_policy', 'keep'), kw.get('non_ascii_only', False))
        compare(enc, refrules, cfg, case['s'], acc, case, sub)
    elif sub == 'helper':
        check_helper(b, acc, only=case['seq'])
    elif sub == 'alias':
        check_alias(acc, only=case['seq'])
    else:
        run_shard((sub, 0), 'thorough', acc)
    return acc.violations


def finish(tier, merged, plan):
    errs = []
    c = merged.counts
    if c['fail_policy_raises'] < 1000 or c['nontrivial'] < 100000 or c['helper_histories'] < 100:
        errs.append('sanity floor: fail_policy_raises=%d nontrivial=%d helper=%d' % (c['fail_policy_raises'], c['nontrivial'], c['helper_histories']))
    return errs
