# -*- coding: utf-8 -*-
"""C20 - positions map to the right line and column, also in error reports.

BE: every string of length <= N over {a, \\n, \\r, space} x every position 0..len x offset
settings, through LineNumbersCalculator and LatexWalker.pos_to_lineno_colno (tuple and
dict forms); plus every strict-mode parse error raised on every word of length <= M over
an error-producing alphabet containing newlines.
Oracle: the definition (count of newlines before pos; pos - index after the last one).
"""
from mc import engine
from mc.engine import run_guarded, exc_frame
from mc import words

ID = 'C20'
LEVEL = 'exploration'
TECHNIQUE = 'bounded-exhaustive enumeration of strings x positions x offsets against a definitional oracle'

ALPHA = ['a', '\n', '\r', ' ']
ERR_ALPHA = ['a', '\n', '{', '}', '$', '\\', '%', ' ', '[', '~']

OFFSETS = [(lo, fo, co) for lo in (None, 0, 5) for fo in (0, 3) for co in (0, 2)]

BOUNDS = {'quick': dict(N=7, M=5), 'thorough': dict(N=9, M=6)}


# errors raised by the token reader itself (cut-off \begin / \end, \verb without argument) and by verbatim parsers, after
# line ends of every kind
ERR_ALPHA2 = ['a', '\n', ' ', '\r', '\\end', '\\begin', '\\verb', '\\begin{a}', '\\end{b}', '{', '}', '\\verb|']
M2 = {'quick': 4, 'thorough': 5}


def ref_linecol(s, pos, lo, fo, co):
    line = s.count('\n', 0, pos)
    start = s.rfind('\n', 0, pos) + 1
    col = pos - start + (fo if line == 0 else co)
    return (line + (1 if lo is None else lo), col)


def plan(tier):
    b = BOUNDS[tier]
    shards = [('calc', sh) for sh in words.prefix_shards(ALPHA, b['N'], 2)]
    shards += [('err', sh) for sh in words.prefix_shards(ERR_ALPHA, b['M'], 2)]
    shards += [('err2', sh) for sh in words.prefix_shards(ERR_ALPHA2, M2[tier], 1)]
    return dict(
        shards=shards,
        bounds=dict(b, alphabet=ALPHA, err_alphabet=ERR_ALPHA, offset_settings=len(OFFSETS)),
        rule=('calc: every string of length <= N over {a,\\n,\\r,space}, every position 0..len, '
              '12 offset settings, LineNumbersCalculator and LatexWalker (tuple+dict), also with the first-line / column offset left out; one '
              'evaluation = one (string, offsets) pair with all its positions, non-trivial iff the '
              'string contains a newline. err: every word of length <= M over the error alphabet '
              'parsed strictly under 3 offset settings (general parser), and through the group / expression parsers and the pylatexenc-2 entry points get_latex_expression, get_latex_braced_group, get_latex_nodes under one; non-trivial iff a parse error was raised '
              'and checked; the same for every word of length <= 4 (5) over 12 lexemes with cut-off \\begin / \\end / \\verb tokens and carriage returns (errors raised by the token reader itself).  Words are distinct by construction.'),
        assumptions=['oracle: line = number of \\n before pos; column = pos - (index after last \\n) + offset'],
    )


def check_calc(s, acc):
    from pylatexenc._util import LineNumbersCalculator
    from pylatexenc.latexwalker import LatexWalker
    n = len(s)
    for (lo, fo, co) in OFFSETS:
        kw = dict(first_line_column_offset=fo, column_offset=co)
        if lo is not None:
            kw['line_number_offset'] = lo
        calc = LineNumbersCalculator(s, **kw)
        lw = LatexWalker(s, **kw)
        apis = [('calc', calc.pos_to_lineno_colno), ('walker', lw.pos_to_lineno_colno)]
        # an offset left out means its documented default (0), whatever the other offsets are
        if fo == 0:
            kw2 = {k: v for k, v in kw.items() if k != 'first_line_column_offset'}
            apis.append(('walker-first-line-offset-omitted', LatexWalker(s, **kw2).pos_to_lineno_colno))
            apis.append(('calc-first-line-offset-omitted', LineNumbersCalculator(s, **kw2).pos_to_lineno_colno))
        if co == 0:
            kw3 = {k: v for k, v in kw.items() if k != 'column_offset'}
            apis.append(('walker-column-offset-omitted', LatexWalker(s, **kw3).pos_to_lineno_colno))
            apis.append(('calc-column-offset-omitted', LineNumbersCalculator(s, **kw3).pos_to_lineno_colno))
        acc.count('evaluations')
        if '\n' in s:
            acc.count('nontrivial')
        for pos in range(n + 1):
            exp = ref_linecol(s, pos, lo, fo, co)
            for api, fn in apis:
                st, got = run_guarded(fn, pos)
                st2, gotd = run_guarded(fn, pos, as_dict=True)
                acc.count('positions')
                if st != 'ok' or tuple(got) != exp:
                    acc.violation(ID, 'calc', dict(s=s, pos=pos, offsets=[lo, fo, co], api=api),
                                  dict(kind='linecol', api=api,
                                       status=st if st != 'ok' else 'wrong'),
                                  observed=repr(got), expected=list(exp))
                elif st2 != 'ok' or (gotd.get('lineno'), gotd.get('colno')) != exp:
                    acc.violation(ID, 'calc', dict(s=s, pos=pos, offsets=[lo, fo, co], api=api),
                                  dict(kind='linecol-dict', api=api),
                                  observed=repr(gotd), expected=list(exp))
            acc.outcome((exp[0] - (1 if lo is None else lo), exp[1] - (fo if exp[0] == (1 if lo is None else lo) else co), n - pos))
        # the same objects queried again in other orders: descending, and (short strings) every ordered pair
        orders = [list(range(n, -1, -1))]
        if n <= 5:
            orders.append([q for pair in ((a, b2) for a in range(n + 1) for b2 in range(n + 1)) for q in pair])
        for order in orders:
            for oi, pos in enumerate(order):
                exp = ref_linecol(s, pos, lo, fo, co)
                for api, fn in (('calc', calc.pos_to_lineno_colno), ('walker', lw.pos_to_lineno_colno)):
                    st, got = run_guarded(fn, pos)
                    acc.count('positions')
                    if st != 'ok' or tuple(got) != exp:
                        acc.violation(ID, 'calc', dict(s=s, pos=pos, offsets=[lo, fo, co], api=api, order=order[:oi + 1][-6:]),
                                      dict(kind='linecol-depends-on-query-order', api=api), observed=repr(got), expected=list(exp))
                        break


ERR_OFFSETS = [(None, 0, 0), (5, 3, 2), (0, 0, 2)]


def _strict_parse(s, kw, entry='general'):
    from pylatexenc.latexwalker import LatexWalker
    from pylatexenc.latexnodes.parsers import LatexGeneralNodesParser, LatexDelimitedGroupParser, LatexExpressionParser
    lw = LatexWalker(s, tolerant_parsing=False, **kw)
    if entry == 'general':
        return lw.parse_content(LatexGeneralNodesParser())
    if entry == 'group':
        return lw.parse_content(LatexDelimitedGroupParser(delimiters=('{', '}')))
    if entry == 'expression':
        return lw.parse_content(LatexExpressionParser())
    if entry == 'get_latex_expression':
        return lw.get_latex_expression(0)
    if entry == 'get_latex_braced_group':
        return lw.get_latex_braced_group(0)
    if entry == 'get_latex_nodes':
        return lw.get_latex_nodes(0)
    raise ValueError(entry)


ENTRIES = ['general', 'group', 'expression', 'get_latex_expression', 'get_latex_braced_group', 'get_latex_nodes']


def check_err(s, acc):
    for (lo, fo, co) in ERR_OFFSETS:
        for entry in ENTRIES:
            # the other entry points (group / expression parsers, pylatexenc-2 calls) under one offset setting
            if entry != 'general' and (lo, fo, co) != ERR_OFFSETS[1]:
                continue
            _check_err_one(s, lo, fo, co, entry, acc)


def _check_err_one(s, lo, fo, co, entry, acc):
    from pylatexenc.latexwalker import LatexWalkerParseError
    kw = dict(first_line_column_offset=fo, column_offset=co)
    if lo is not None:
        kw['line_number_offset'] = lo
    st, res = run_guarded(_strict_parse, s, kw, entry)
    acc.count('evaluations')
    if st != 'exc' or not isinstance(res, LatexWalkerParseError):
        acc.count('err_no_parse_error')
        return     # C05 decides exception types; here only located errors
    e = res
    case = dict(s=s, offsets=[lo, fo, co])
    if entry != 'general':
        case['entry'] = entry
    pos = getattr(e, 'pos', None)
    if pos is None:
        acc.count('err_unlocated')   # C05 reports unlocated errors
        if e.lineno is not None or e.colno is not None:
            acc.violation(ID, 'err', case, dict(kind='error-linecol-without-pos'),
                          observed=[e.lineno, e.colno], expected=[None, None])
        return
    if not (0 <= pos <= len(s)):
        acc.count('err_pos_out_of_range')
        return
    acc.count('nontrivial')
    acc.count('errors_checked')
    exp = ref_linecol(s, pos, lo, fo, co)
    acc.outcome(('err', exp, type(e).__name__))
    if (e.lineno, e.colno) != exp:
        acc.violation(ID, 'err', case, dict(kind='error-linecol', exc=type(e).__name__, entry=entry),
                      observed=[pos, e.lineno, e.colno], expected=[pos] + list(exp))


def check_case(sub, case, acc):
    if sub == 'calc':
        check_calc(case['s'], acc)
        # a replay reports every problem of the string; keep those of the stored kind of case
        acc.violations = [v for v in acc.violations if ('order' in v['case']) == ('order' in case)]
    else:
        check_err(case['s'], acc)


def run_shard(shard, tier, acc):
    sub, sh = shard
    b = BOUNDS[tier]
    if sub == 'calc':
        for w in words.iter_shard(ALPHA, b['N'], sh):
            s = words.render(ALPHA, w)
            check_calc(s, acc)
            acc.sample(dict(sub='calc', s=s))
    elif sub == 'err2':
        for w in words.iter_shard(ERR_ALPHA2, M2[tier], sh):
            s = words.render(ERR_ALPHA2, w)
            check_err(s, acc)
    else:
        for w in words.iter_shard(ERR_ALPHA, b['M'], sh):
            s = words.render(ERR_ALPHA, w)
            check_err(s, acc)
            acc.sample(dict(sub='err', s=s))


def replay(sub, case):
    acc = engine.Acc()
    check_case(sub, case, acc)
    return acc.violations


def finish(tier, merged, plan):
    errs = []
    c = merged.counts
    if c['errors_checked'] < 1000:
        errs.append('sanity floor: only %d located parse errors were checked' % c['errors_checked'])
    if c['nontrivial'] < 1000 or len(merged.outcomes) < 20:
        errs.append('sanity floor: too few non-trivial cases/outcomes')
    return errs
