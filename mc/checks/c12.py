# -*- coding: utf-8 -*-
r"""C12 - latex2text content filters: comments, math modes, discards.

DD: every derivation of the core grammar (plus \label) in which every text item and every
comment carries a unique marker word, at every nesting position; x 4 math modes x
keep_comments x 3 whitespace policies x fill_text, under the default text database and a
custom database with explicit discard=True entries.
Oracle (from the derivation): keep_comments=False => no comment marker in the output;
True => every comment in a flow position outside removed / discarded material appears as
'%marker'; math_mode 'remove' => no marker of text inside a formula or math environment;
'verbatim' => the exact source of every outermost formula appears; 'with-delimiters' =>
its delimiters and content markers appear; discarded constructs contribute no marker.
"""
import itertools

from mc import engine, contexts, docgen, canon
from mc.engine import run_guarded, exc_frame

ID = 'C12'
LEVEL = 'exploration'
TECHNIQUE = 'exhaustive derivations with unique marker words at every nesting position x option product, presence/absence oracle from the derivation'

PROFILES = {
    'quick': [dict(ctx='C', size=2, cmax=99, d=0), dict(ctx='C', size=2, cmax=0, d=1), dict(ctx='C', size=3, cmax=0, d=0)],
    'thorough': [dict(ctx='C', size=2, cmax=99, d=1), dict(ctx='C', size=3, cmax=1, d=0)],
}
MM = ['text', 'with-delimiters', 'verbatim', 'remove']
SLS = ['macros', 'based-on-source', True]
OPTS = [(m, kc, s, ft) for m in MM for kc in (False, True) for s in SLS for ft in (None, 20)]
NSL = 48
DISCARD = {'default': {'macros': {'label', 'hspace'}, 'envs': set()},
           'custom': {'macros': {'label', 'hspace', 'emph'}, 'envs': {'foo'}}}
_L2T = {}


def l2t_obj(db, o):
    key = (db, o)
    if key not in _L2T:
        from pylatexenc import latex2text as lt
        kw = dict(math_mode=o[0], keep_comments=o[1], strict_latex_spaces=o[2], fill_text=o[3])
        if db == 'custom':
            ctx = lt.get_default_latex_context_db().filtered_context()
            ctx.add_context_category('verif-discards', prepend=True,
                                     macros=[lt.MacroTextSpec('emph', discard=True)],
                                     environments=[lt.EnvironmentTextSpec('foo', discard=True)])
            kw['latex_context'] = ctx
        _L2T[key] = lt.LatexNodes2Text(**kw)
    return _L2T[key]


def mark(items, counter, flags, out, db):
    """Rewrite the derivation with unique markers; out collects (marker, kind, in_math, in_discard)."""
    res = []
    for it in items:
        k = it[0]
        if k == 'T':
            counter[0] += 1
            m = 'W%dx' % counter[0]
            out.append((m, 'text', flags['math'], flags['discard'], flags['disc_at_formula']))
            res.append(('T', m))
        elif k == 'Cmt':
            counter[0] += 1
            m = 'C%dx' % counter[0]
            out.append((m, 'comment', flags['math'], flags['discard'], flags['disc_at_formula']))
            res.append(('Cmt', m))
        elif k in ('G', 'NB'):
            res.append((k, mark(it[1], counter, flags, out, db)))
        elif k == 'Math':
            f = dict(flags, math=True)
            if not flags['math']:
                f['disc_at_formula'] = flags['discard']
            res.append(('Math', it[1], mark(it[2], counter, f, out, db)))
        elif k == 'Call':
            name = it[1]
            f = dict(flags)
            if name in DISCARD[db]['macros']:
                f['discard'] = True
            vals = []
            for si, (sl, v) in enumerate(zip(docgen.SIGS['C']['macros'][name], it[2])):
                sl = dict(sl, unrendered=((name == 'sqrt' and si == 0) or name == '\\'))     # sqrt renders as '√(<arg 2>)', \\[..] as a line break
                vals.append(_mark_val(v, counter, f, out, db, sl))
            res.append(('Call', name, tuple(vals)))
        elif k == 'Env':
            name = it[1]
            f = dict(flags)
            if name in DISCARD[db]['envs']:
                f['discard'] = True
            env = docgen.SIGS['C']['envs'][name]
            # arguments of an environment are not part of its rendering (only the body is)
            vals = tuple(_mark_val(v, counter, f, out, db, dict(sl, unrendered=True)) for sl, v in zip(env['sig'], it[2]))
            fb = dict(f)
            if env['body'] == 'math':
                if not fb['math']:
                    fb['disc_at_formula'] = fb['discard']
                fb['math'] = True
            res.append(('Env', name, vals, mark(it[3], counter, fb, out, db)))
        else:
            res.append(it)
    return tuple(res)


def _mark_val(v, counter, f, out, db, sl):
    if isinstance(v, tuple) and v and v[0] in ('grp', 'opt'):
        f2 = dict(f)
        if sl.get('unrendered'):
            f2['discard'] = True       # the documented replacement text does not use this argument
        return (v[0], mark(v[1], counter, f2, out, db))
    if isinstance(v, tuple) and v and v[0] == 'tok':
        counter[0] += 1
        m = 'W%dx' % counter[0]
        # a single-token argument is one character in the grammar; as a marker word only its first letter is the argument
        return v
    return v


def formulas(nodes, discard_names, inside_discard=False, out=None):
    """Outermost formula / math-environment nodes outside discarded constructs (from the parsed tree)."""
    if out is None:
        out = []
    for n in (nodes or []):
        if n is None:
            continue
        k = canon.kind_of(n)
        if k == 'math' or (k == 'environment' and n.environmentname == 'equation'):
            out.append(n)
            continue
        disc = (k == 'macro' and n.macroname in discard_names['macros']) or \
               (k == 'environment' and n.environmentname in discard_names['envs'])
        if disc:
            continue
        if getattr(n, 'nodeargd', None) is not None and n.nodeargd.argnlist:
            for ai, a in enumerate(n.nodeargd.argnlist):
                if a is None or (k == 'macro' and n.macroname == 'sqrt' and ai == 0) or k == 'environment' or (k == 'macro' and n.macroname == '\\'):
                    continue
                if canon.kind_of(a) == 'group':
                    formulas(a.nodelist, discard_names, False, out)
                else:
                    formulas([a], discard_names, False, out)
        if k in ('group', 'environment'):
            formulas(n.nodelist, discard_names, False, out)
    return out


def check_items(items, devs, acc):
    if docgen.bracket_under_nested_pair(items):
        acc.count('known_c02_finding')      # recorded C02 finding: such a document is not parsed as written
        return
    for db in ('default', 'custom'):
        markers = []
        mitems = mark(items, [0], dict(math=False, discard=False, disc_at_formula=None), markers, db)
        doc = docgen.render(mitems, 'C', devs)
        if not doc.valid:
            return
        if devs and docgen.render(mitems, 'C').skel != doc.skel:
            # the whitespace changed the structure (LaTeX's own rule: no optional argument after whitespace for the line-break
            # macro, its bracket becomes visible text): the marker classes of the derivation do not apply
            acc.count('skipped_whitespace_changes_structure')
            return
        case = dict(s=doc.text, items=repr(items), devs={str(k): v for k, v in (devs or {}).items()}, db=db)
        acc.count('evaluations')
        st, res = run_guarded(contexts.parse, doc.text, 'C', False)
        if st != 'ok':
            acc.count('not_parsed')
            continue
        nodes = res[1]
        if markers:
            acc.count('nontrivial')
        fm = formulas(nodes, DISCARD[db])
        for o in OPTS:
            mm, kc, sls, ft = o
            st, out = run_guarded(l2t_obj(db, o).nodelist_to_text, nodes)
            acc.count('renderings')
            c2 = dict(case, opt=[str(x) for x in o])
            if st != 'ok' or not isinstance(out, str):
                acc.violation(ID, 'dd', c2, dict(kind='latex2text-raises', exc=type(out).__name__ if st == 'exc' else st))
                break
            bad = None
            for (m, kind, in_math, in_disc, disc_at_formula) in markers:
                # expected presence, from the derivation
                if in_math and disc_at_formula:
                    expect = False                      # the whole formula sits in a discarded construct
                elif in_math and mm == 'remove':
                    expect = False
                elif in_math and mm == 'verbatim':
                    expect = True                       # the formula source is reproduced, comments and all
                elif kind == 'comment':
                    expect = bool(kc) and not in_disc
                else:
                    expect = not in_disc
                needle = ('%' + m) if kind == 'comment' else m
                present = needle in out
                if kind == 'comment' and not expect:
                    present = m in out
                if present and not expect:
                    if kind == 'comment' and not kc:
                        bad = dict(kind='comment-text-leaked', math_mode=mm, in_math=in_math)
                    elif in_math and mm == 'remove':
                        bad = dict(kind='formula-content-leaked-under-remove')
                    else:
                        bad = dict(kind='discarded-content-leaked', db=db)
                elif expect and not present:
                    bad = dict(kind='kept-comment-missing' if kind == 'comment' else 'visible-text-missing', math_mode=mm, in_math=in_math)
                if bad:
                    bad['marker_kind'] = kind
                    break
            if not bad:
                for f in fm:
                    src = f.latex_verbatim()
                    if mm == 'verbatim' and src not in out:
                        bad = dict(kind='verbatim-formula-source-missing')
                    elif mm == 'with-delimiters':
                        if canon.kind_of(f) == 'math':
                            d0, d1 = f.delimiters
                        else:
                            d0, d1 = '\\begin{equation}', '\\end{equation}'
                        if d0 not in out or d1 not in out:
                            bad = dict(kind='formula-delimiters-missing')
                    if bad:
                        break
            if bad:
                acc.violation(ID, 'dd', c2, bad, observed=repr(out)[:500], note=repr(markers)[:300])
                break
        acc.outcome((db, tuple(sorted((k, a, b, c) for (_, k, a, b, c) in markers))))


# the equation environments of the default text database (documented set, transcribed - not imported)
MATH_ENVS_L2T = ['equation', 'equation*', 'eqnarray', 'eqnarray*', 'align', 'align*', 'multline', 'multline*',
                 'gather', 'gather*', 'dmath', 'dmath*']
ENV_FRAMES = [('top', '%s', False), ('text-around', 'A1x %s B2x', False), ('group', '{%s}', False), ('macro-arg', '\\textbf{%s}', False),
              ('item', '\\begin{itemize}\\item %s\\end{itemize}', False), ('unknown-env', '\\begin{foo}%s\\end{foo}', 'custom'),
              ('emph', '\\emph{%s}', 'custom'), ('label', '\\label{%s}', True)]


def check_mathenvs(acc, only=None):
    for env in MATH_ENVS_L2T:
        body = 'W1x %C2x\n W3x'
        src = '\\begin{%s}%s\\end{%s}' % (env, body, env)
        for (fname, frame, disc) in ENV_FRAMES:
            text = frame % src
            if only is not None and only != text:
                continue
            acc.count('evaluations')
            acc.count('nontrivial')
            acc.count('mathenv_documents')
            st, res = run_guarded(contexts.parse, text, 'C', False)
            if st != 'ok':
                acc.count('not_parsed')
                continue
            nodes = res[1]
            for db in ('default', 'custom'):
                discarded = (disc is True) or (disc == db)
                for o in OPTS:
                    mm, kc, sls, ft = o
                    st, out = run_guarded(l2t_obj(db, o).nodelist_to_text, nodes)
                    acc.count('renderings')
                    case = dict(s=text, db=db, opt=[str(x) for x in o], env=env, frame=fname)
                    if st != 'ok' or not isinstance(out, str):
                        acc.violation(ID, 'mathenvs', case, dict(kind='latex2text-raises', exc=type(out).__name__ if st == 'exc' else st))
                        break
                    bad = None
                    if discarded:
                        if 'W1x' in out or 'W3x' in out or 'C2x' in out:
                            bad = dict(kind='discarded-content-leaked', db=db)
                    elif mm == 'remove':
                        if 'W1x' in out or 'W3x' in out or 'C2x' in out:
                            bad = dict(kind='formula-content-leaked-under-remove')
                    elif mm == 'verbatim':
                        if src not in out:
                            bad = dict(kind='verbatim-formula-source-missing')
                    else:
                        if 'W1x' not in out or 'W3x' not in out:
                            bad = dict(kind='visible-text-missing', math_mode=mm, in_math=True)
                        elif kc and '%C2x' not in out:
                            bad = dict(kind='kept-comment-missing', math_mode=mm, in_math=True)
                        elif not kc and 'C2x' in out:
                            bad = dict(kind='comment-text-leaked', math_mode=mm, in_math=True)
                        elif mm == 'with-delimiters' and ('\\begin{%s}' % env not in out or '\\end{%s}' % env not in out):
                            bad = dict(kind='formula-delimiters-missing')
                    if bad:
                        bad['math_environment'] = True
                        acc.violation(ID, 'mathenvs', case, bad, observed=repr(out)[:300])
                        break


MATRIX_ENVS = [('array', '{c}'), ('pmatrix', ''), ('bmatrix', ''), ('smallmatrix', ''), ('psmallmatrix', ''), ('bsmallmatrix', '')]


def check_matrices(acc, only=None):
    """Comments and cell texts inside matrix-like environments, in running text and inside a formula."""
    for (env, arg) in MATRIX_ENVS:
        body = 'W1x & W2x %C3x\n \\\\ W4x'
        src = '\\begin{%s}%s%s\\end{%s}' % (env, arg, body, env)
        for (fname, frame, inmath) in (('top', '%s', False), ('inline', 'A1x $%s$ B2x', True), ('display', '\\[%s\\]', True), ('group', '{%s}', False)):
            text = frame % src
            if only is not None and only != text:
                continue
            acc.count('evaluations')
            acc.count('nontrivial')
            acc.count('mathenv_documents')
            st, res = run_guarded(contexts.parse, text, 'C', False)
            if st != 'ok':
                acc.count('not_parsed')
                continue
            for db in ('default', 'custom'):
                for o in OPTS:
                    mm, kc, sls, ft = o
                    st, out = run_guarded(l2t_obj(db, o).nodelist_to_text, res[1])
                    acc.count('renderings')
                    case = dict(s=text, db=db, opt=[str(x) for x in o], env=env, frame=fname)
                    if st != 'ok' or not isinstance(out, str):
                        acc.violation(ID, 'matrices', case, dict(kind='latex2text-raises', exc=type(out).__name__ if st == 'exc' else st))
                        break
                    bad = None
                    cells = all(m in out for m in ('W1x', 'W2x', 'W4x'))
                    if inmath and mm == 'remove':
                        if any(m in out for m in ('W1x', 'W2x', 'W4x', 'C3x')):
                            bad = dict(kind='formula-content-leaked-under-remove')
                    elif inmath and mm == 'verbatim':
                        if src not in out:
                            bad = dict(kind='verbatim-formula-source-missing')
                    elif not cells:
                        bad = dict(kind='visible-text-missing', math_mode=mm, in_math=inmath)
                    elif kc and '%C3x' not in out:
                        bad = dict(kind='kept-comment-missing', math_mode=mm, in_math=inmath)
                    elif not kc and 'C3x' in out:
                        bad = dict(kind='comment-text-leaked', math_mode=mm, in_math=inmath)
                    if bad:
                        bad['matrix_environment'] = True
                        acc.violation(ID, 'matrices', case, bad, observed=repr(out)[:300])
                        break


LATE_DOCS = ['\\emph{W1x} \\textbf{W2x}', '\\begin{foo}W3x\\end{foo} \\emph{W4x}W5x', '$\\emph{W6x}$ W7x']


def check_late(acc, only=None):
    """A construct declared as discarded *after* the converter has rendered it contributes nothing from then on:
    all sequences of <= 3 operations (convert one of three documents, declare \\emph / {foo} discarded by a prepended
    category, replace the converter's context by a fresh default one) on one converter."""
    from pylatexenc import latex2text as lt
    ops = [('conv', 0), ('conv', 1), ('conv', 2), ('discard-macro', 'emph'), ('discard-env', 'foo'), ('new-context', None)]
    for k in (1, 2, 3):
        for seq in itertools.product(range(len(ops)), repeat=k):
            if only is not None and list(seq) != only:
                continue
            if ops[seq[-1]][0] != 'conv':
                continue
            acc.count('evaluations')
            acc.count('nontrivial')
            acc.count('late_histories')
            conv = lt.LatexNodes2Text(latex_context=lt.get_default_latex_context_db())
            disc = set()
            for step, oi in enumerate(seq):
                op, arg = ops[oi]
                case = dict(seq=list(seq), step=step)
                try:
                    if op == 'discard-macro':
                        conv.latex_context.add_context_category('late-%d' % step, prepend=True, macros=[lt.MacroTextSpec(arg, discard=True)])
                        disc.add(arg)
                    elif op == 'discard-env':
                        conv.latex_context.add_context_category('late-%d' % step, prepend=True, environments=[lt.EnvironmentTextSpec(arg, discard=True)])
                        disc.add(arg)
                    elif op == 'new-context':
                        conv.latex_context = lt.get_default_latex_context_db()
                        disc = set()
                    else:
                        out = conv.latex_to_text(LATE_DOCS[arg])
                        hidden = {'W1x': 'emph', 'W3x': 'foo', 'W4x': 'emph', 'W6x': 'emph'}
                        for m in ('W1x', 'W2x', 'W3x', 'W4x', 'W5x', 'W6x', 'W7x'):
                            if m not in LATE_DOCS[arg]:
                                continue
                            expect = hidden.get(m) not in disc
                            if (m in out) != expect:
                                acc.violation(ID, 'late', case, dict(kind='discarded-content-leaked' if not expect else 'visible-text-missing',
                                                                     declared_after_first_use=True), observed=repr(out)[:200])
                                break
                except Exception as e:
                    acc.violation(ID, 'late', case, dict(kind='latex2text-raises', exc=type(e).__name__))
                    break


def plan(tier):
    shards = [(pi, k) for pi in range(len(PROFILES[tier])) for k in range(NSL)] + [('mathenvs', 0), ('matrices', 0), ('late', 0)]
    return dict(
        shards=shards, bounds=dict(profiles=PROFILES[tier], option_sets=len(OPTS), databases=['default', 'custom (emph, foo discard=True)']),
        rule=('core grammar + \\label (mc/docgen.py SIGS["C"]): ' + '; '.join('size <= %d, <= %s non-default argument forms, <= %d deviations'
              % (p['size'], p['cmax'] if p['cmax'] < 99 else 'any', p['d']) for p in PROFILES[tier]) +
              '; every text item and comment replaced by a unique marker word; x 48 option sets (4 math_mode x keep_comments x 3 whitespace '
              'policies x fill_text in {None, 20}) x 2 text databases.  one evaluation = one (document, database) under all option sets; '
              'non-trivial = documents with at least one marker.  plus each of the 12 equation environments of the default text database '
              '(align*, multline*, dmath, ...) with marked content in 8 positions under all option sets and both databases; 6 matrix-like environments with cell texts and a comment in running text, inline, display and in a group; all sequences of <= 3 operations (convert, declare a macro / environment discarded, replace the context) on one converter.'),
        assumptions=['outermost formulas are located in the parsed tree (C01/C02); marker classes (in formula / in discarded construct) come from the derivation',
                     'comments between a macro and its argument are consumed by the parser by design and are not generated as marker comments'],
    )


def run_shard(shard, tier, acc):
    pi, k = shard
    if pi == 'mathenvs':
        check_mathenvs(acc)
        return
    if pi == 'matrices':
        check_matrices(acc)
        return
    if pi == 'late':
        check_late(acc)
        return
    p = PROFILES[tier][pi]
    for items in docgen.iter_doc_slice(p, k):
        base = docgen.render(items, 'C')
        # one more deviation kind here: a line that ends in a blank (matters for verbatim reproduction of formula sources)
        for dv in docgen.deviation_vectors(base.nb, p['d'], kinds=docgen.DEVIATIONS + [' \n']):
            check_items(items, dv, acc)
        acc.sample(dict(s=base.text))


def replay(sub, case):
    acc = engine.Acc()
    if sub == 'late':
        check_late(acc, only=case['seq'])
        return acc.violations
    if sub == 'matrices':
        check_matrices(acc, only=case['s'])
        acc.violations = [v for v in acc.violations if v['case'].get('db') == case.get('db')]
        return acc.violations
    if sub == 'mathenvs':
        check_mathenvs(acc, only=case['s'])
        acc.violations = [v for v in acc.violations if v['case'].get('db') == case.get('db')]
        return acc.violations
    items = eval(case['items'], {'__builtins__': {}}, {})
    devs = {int(k): v for k, v in case.get('devs', {}).items()}
    check_items(items, devs, acc)
    acc.violations = [v for v in acc.violations if v['case'].get('db') == case.get('db')]
    return acc.violations


def finish(tier, merged, plan):
    errs = []
    c = merged.counts
    if c['renderings'] < 1000000 or c['nontrivial'] < 10000:
        errs.append('sanity floor: renderings=%d nontrivial=%d' % (c['renderings'], c['nontrivial']))
    if c['not_parsed']:
        errs.append('%d generated documents did not parse (see C02)' % c['not_parsed'])
    return errs
