# -*- coding: utf-8 -*-
"""C13 - encoded text is inert, strictly parseable LaTeX, ASCII-only when asked.

BE: every string over the LaTeX-active/relevant ASCII characters up to a length bound, every
code point with a built-in rule alone and between neighbours, representatives of control /
combining / astral / unassigned characters, x both built-in rule sets x protection schemes x
unknown-character policies.  Oracle: the output parses in strict mode; for inputs made only
of ASCII the tree contains no comment, environment or math node; under replace / ignore /
unihex the output is pure ASCII; under fail ValueError iff some NFC character has neither a
rule nor is in the pass-through range.
"""
import itertools
import unicodedata

from mc import engine, contexts, canon
from mc.engine import run_guarded, exc_frame

ID = 'C13'
LEVEL = 'exploration'
TECHNIQUE = 'bounded-exhaustive strings x configurations: strict parse of every encoder output, node-kind and ASCII oracles'

ACTIVE = ['\\', '{', '}', '$', '%', '&', '#', '_', '^', '~', '<', '>', '|', '"', "'", '`', '-', ' ', 'a', '\n']
BOUNDS = {'quick': dict(NF=3, ND=4), 'thorough': dict(NF=4, ND=5)}

RULESETS = ['defaults', 'unicode-xml']
PROTS = ['braces', 'braces-all', 'braces-almost-all', 'braces-after-macro']
UNKS = ['keep', 'replace', 'ignore', 'fail', 'unihex']
ODD = ['\ud835', '\udc9c', '\udbff', 'a', '\\', '\u00e9']
SPECIAL = ['\u0001', '́', '\U0001d400', '͸', 'é', '€', '\u007f']

_ENC = {}


def encoder(rs, prot, unk):
    key = (rs, prot, unk)
    if key not in _ENC:
        from pylatexenc.latexencode import UnicodeToLatexEncoder
        # unknown_char_warning keeps its default (True): the property is about the encoder as shipped
        _ENC[key] = UnicodeToLatexEncoder(conversion_rules=[rs], replacement_latex_protection=prot,
                                          unknown_char_policy=unk)
    return _ENC[key]


_TABLE = {}


def table(rs):
    if rs not in _TABLE:
        from pylatexenc import latexencode as le
        from pylatexenc.latexencode import _uni2latexmap_xml
        _TABLE[rs] = le.get_builtin_uni2latex_dict() if rs == 'defaults' else _uni2latexmap_xml.uni2latex
    return _TABLE[rs]


def has_no_rule_outside_passthrough(s, rs):
    t = table(rs)
    for ch in unicodedata.normalize('NFC', s):
        o = ord(ch)
        if o in t:
            continue
        if 32 <= o <= 127 or ch in '\n\r\t':
            continue
        return True
    return False


def check(s, rs, prot, unk, acc, sub):
    from pylatexenc.latexwalker import LatexWalkerParseError
    case = dict(s=s, rules=rs, protection=prot, unknown=unk)
    acc.count('evaluations')
    enc = encoder(rs, prot, unk)
    st, out = run_guarded(enc.unicode_to_latex, s)
    must_fail = (unk == 'fail' and has_no_rule_outside_passthrough(s, rs))
    if st == 'exc':
        if isinstance(out, ValueError) and must_fail:
            acc.count('fail_raised')
            return
        acc.violation(ID, sub, case, dict(kind='encoder-raises', exc=type(out).__name__, frame=exc_frame(out)), observed=repr(out)[:200])
        return
    if st == 'timeout':
        acc.violation(ID, sub, case, dict(kind='hang'))
        return
    if must_fail:
        acc.violation(ID, sub, case, dict(kind='fail-policy-did-not-raise'), observed=repr(out))
        return
    if out != unicodedata.normalize('NFC', s):
        acc.count('nontrivial')
    acc.outcome(out)
    if unk in ('replace', 'ignore', 'unihex') and not out.isascii():
        acc.violation(ID, sub, case, dict(kind='output-not-ascii', policy=unk, rules=rs), observed=repr(out))
    st, res = run_guarded(contexts.parse, out, 'D', False)
    if st != 'ok':
        what = (getattr(res, 'error_type_info', None) or {}).get('what') if st == 'exc' else None
        # cause classification (identifies a defect, not an input): a combining character that NFC could not
        # compose and that the table encodes as a bare accent macro leaves that macro without its argument
        t = table(rs)
        cause = 'other'
        if any(unicodedata.combining(ch) and ord(ch) in t for ch in unicodedata.normalize('NFC', s)):
            cause = 'stray-combining-character-encoded-as-bare-accent-macro'
        acc.violation(ID, sub, case, dict(kind='output-does-not-parse-strictly', rules=rs, what=what, cause=cause,
                                          exc=type(res).__name__ if st == 'exc' else st), observed=repr(out))
        return
    kinds = set(canon.kind_of(n) for n in canon.iter_nodes(res[1]))
    # no replacement text of either table contains an unescaped % or a \\begin: a comment or an environment in the output was
    # opened by an input character that was not neutralised (also a non-ASCII one: full-width and small forms of % { } $ ...)
    bad_any = sorted(kinds & {'comment', 'environment'})
    if bad_any and not s.isascii():
        acc.violation(ID, sub, case, dict(kind='active-character-not-neutralised', node=bad_any, rules=rs, input='non-ascii'), observed=repr(out))
        return
    if s.isascii():
        bad = sorted(kinds & {'comment', 'environment', 'math'})
        if bad:
            acc.violation(ID, sub, case, dict(kind='active-character-not-neutralised', node=bad, rules=rs), observed=repr(out))
        else:
            # the remaining active characters (# & _ ^ ~) must not survive as themselves either: not as a specials node and
            # not inside ordinary characters
            for n in canon.iter_nodes(res[1]):
                k = canon.kind_of(n)
                bare = None
                if k == 'specials' and n.specials_chars in ('~', '&'):
                    bare = n.specials_chars
                elif k == 'chars' and any(c in n.chars for c in '#&_^~'):
                    bare = next(c for c in n.chars if c in '#&_^~')
                if bare is not None:
                    acc.violation(ID, sub, case, dict(kind='active-character-not-neutralised', node=['bare ' + bare], rules=rs), observed=repr(out))
                    break


def plan(tier):
    b = BOUNDS[tier]
    shards = [('full', i) for i in range(len(ACTIVE))] + [('deep', i, j) for i in range(len(ACTIVE)) for j in range(2)] + [('odd', 0), ('compat', 0)]
    shards += [('table', rs, k) for rs in RULESETS for k in range(8)]
    return dict(
        shards=shards, bounds=dict(b, active=ACTIVE, special=[hex(ord(c)) for c in SPECIAL]),
        rule=('full: every string of length <= NF over the 20 LaTeX-active/relevant ASCII characters x 2 rule sets x 4 brace-protection schemes x 5 '
              'unknown-character policies; deep: every string of length <= ND x 2 rule sets at default options; table: every code point with a built-in '
              'rule (both tables) alone, between a/backslash/brace neighbours and next to special representatives (control, combining, astral, '
              'unassigned, DEL), x 4 protections x 5 policies; compat: every code point whose compatibility (NFKC) form contains a LaTeX-active ASCII character, in 7 frames x all configurations; no comment or environment node for any input.  non-trivial = encodes whose output differs from the input.'),
        assumptions=['strict parse under the default walker context decides "parseable"; for non-ASCII input only parseability and ASCII-ness are demanded'],
    )


def run_shard(shard, tier, acc):
    b = BOUNDS[tier]
    if shard[0] == 'full':
        first = ACTIVE[shard[1]]
        for k in range(0, b['NF']):
            for w in itertools.product(ACTIVE, repeat=k):
                s = first + ''.join(w)
                for rs in RULESETS:
                    for prot in PROTS:
                        for unk in UNKS:
                            check(s, rs, prot, unk, acc, 'full')
                acc.sample(dict(s=s))
        if shard[1] == 0:
            for rs in RULESETS:
                for prot in PROTS:
                    for unk in UNKS:
                        check('', rs, prot, unk, acc, 'full')
    elif shard[0] == 'deep':
        first = ACTIVE[shard[1]]
        rs = RULESETS[shard[2]]
        k = b['ND'] - 1
        for w in itertools.product(ACTIVE, repeat=k):
            check(first + ''.join(w), rs, 'braces', 'keep', acc, 'deep')
    elif shard[0] == 'odd':
        # ill-formed but legal Python strings: lone surrogates, also a high+low pair whose code point has a rule
        for k in range(0, 4):
            for w in itertools.product(ODD, repeat=k):
                s = ''.join(w)
                for rs in RULESETS:
                    for prot in PROTS:
                        for unk in UNKS:
                            check(s, rs, prot, unk, acc, 'odd')
    elif shard[0] == 'compat':
        from mc.checks.c04 import compat_active_chars
        for c in compat_active_chars():
            for s in (c, 'a' + c + 'b', c + c, c + '\n', '{' + c + '}', c + '}', '$' + c):
                for rs in RULESETS:
                    for prot in PROTS:
                        for unk in UNKS:
                            check(s, rs, prot, unk, acc, 'compat')
    else:
        rs, k = shard[1], shard[2]
        cps = sorted(table(rs).keys())[k::8]
        for cp in cps:
            c = chr(cp)
            frames = [c, 'a' + c + 'a', '\\' + c, c + '\\', '{' + c, c + '}', c + c] + [c + x for x in SPECIAL] + [x + c for x in SPECIAL]
            for s in frames:
                for prot in PROTS:
                    for unk in UNKS:
                        check(s, rs, prot, unk, acc, 'table')


def replay(sub, case):
    acc = engine.Acc()
    check(case['s'], case['rules'], case['protection'], case['unknown'], acc, sub)
    return acc.violations


def finish(tier, merged, plan):
    errs = []
    c = merged.counts
    if c['fail_raised'] < 100 or c['nontrivial'] < 100000:
        errs.append('sanity floor: fail_raised=%d nontrivial=%d' % (c['fail_raised'], c['nontrivial']))
    return errs
