# -*- coding: utf-8 -*-
"""C05 - strict mode rejects unbalanced markup and fails only with a located parse error.

(a) BE: every word of the sweep spaces parsed strictly: tree or LatexWalkerParseError with
    0 <= pos <= len(s) and (lineno, colno) of that position.
(b) fault enumeration: every well-formed generated document x every token boundary outside
    verbatim/comments x one injected structural fault must be rejected.
"""
from mc import engine, sweeps, contexts
from mc.engine import run_guarded, exc_frame
from mc.checks.c20 import ref_linecol

ID = 'C05'
LEVEL = 'fault_enumeration'
TECHNIQUE = 'bounded-exhaustive words + exhaustive single-fault injection at every token boundary of generated documents'

SPECS = {'quick': dict(R=5, L=3, A=3, Z=3, CR=4, E=3), 'thorough': dict(R=6, L=4, A=4, Z=4, CR=5, E=4)}

FAULTS = ['{', '}', '$', '$$', '\\(', '\\)', '\\[', '\\]', '\\begin{itemize}', '\\end{itemize}']


def plan(tier):
    spec = SPECS[tier]
    shards = [('be', sh) for sh in sweeps.shards(spec)]
    ddrule = ''
    try:
        from mc import docgen
        shards += [('faults', sh) for sh in docgen.shards(tier, purpose='faults')]
        ddrule = ('; (b) ' + docgen.describe(tier, purpose='faults') + ' x every token boundary outside verbatim text and '
                  'comments x each of %d structural faults %r' % (len(FAULTS), FAULTS))
    except ImportError:
        pass
    return dict(
        shards=shards, bounds=dict(spec, faults=FAULTS),
        rule=('(a) ' + sweeps.describe(spec) + ', parsed with tolerant_parsing=False' + ddrule +
              '.  non-trivial = cases in which the parser raised an error that was then checked '
              '(type, position range, line/column); cases are distinct by construction.'),
        assumptions=['a document with one extra dollar sign has odd dollar parity and can never be well-formed'],
    )


def check_strict(s, ctx, acc, sub='be', must_reject=False, extra=None):
    from pylatexenc.latexwalker import LatexWalkerParseError
    case = dict(s=s, ctx=ctx)
    if extra:
        case.update(extra)
    acc.count('evaluations')
    st, res = run_guarded(contexts.parse, s, ctx, False)
    if st == 'ok':
        acc.count('accepted')
        if must_reject:
            acc.violation(ID, sub, case, dict(kind='fault-accepted', fault=(extra or {}).get('fault')),
                          observed='tree returned')
        return 'ok'
    if st == 'timeout':
        acc.violation(ID, sub, case, dict(kind='hang'))
        return 'timeout'
    e = res
    if not isinstance(e, LatexWalkerParseError):
        acc.violation(ID, sub, case, dict(kind='wrong-exception', exc=type(e).__name__, frame=exc_frame(e)),
                      observed=repr(e)[:300])
        return 'exc'
    acc.count('nontrivial')
    acc.count('rejected')
    what = (getattr(e, 'error_type_info', None) or {}).get('what', None)
    acc.outcome((type(e).__name__, what))
    pos = getattr(e, 'pos', None)
    if not isinstance(pos, int) or not (0 <= pos <= len(s)):
        acc.violation(ID, sub, case, dict(kind='error-position', what=what, pos=('none' if pos is None else 'out-of-range')),
                      observed=repr((pos, len(s), str(e)[:200])))
        return 'err'
    exp = ref_linecol(s, pos, None, 0, 0)
    if (e.lineno, e.colno) != exp:
        acc.violation(ID, sub, case, dict(kind='error-linecol', what=what),
                      observed=[pos, e.lineno, e.colno], expected=[pos] + list(exp))
    return 'err'


def run_shard(shard, tier, acc):
    sub, sh = shard
    if sub == 'be':
        for s, ctx in sweeps.iter_shard(SPECS[tier], sh):
            check_strict(s, ctx, acc)
            acc.sample(dict(s=s, ctx=ctx))
    else:
        from mc import docgen
        for doc in docgen.iter_shard(tier, sh, purpose='faults'):
            for (at, in_math) in doc.fault_points(want_math=True):
                for f in FAULTS:
                    if f == '$$' and in_math:
                        # inside a formula '$$' is two inline delimiters, not one unmatched display delimiter
                        continue
                    s2 = doc.text[:at] + f + doc.text[at:]
                    acc.count('faults_injected')
                    check_strict(s2, doc.ctx, acc, sub='faults', must_reject=True,
                                 extra=dict(fault=f, at=at, doc=doc.text))
            acc.sample(dict(doc=doc.text, ctx=doc.ctx, fault_points=doc.fault_points()))


def replay(sub, case):
    acc = engine.Acc()
    extra = {k: case[k] for k in ('fault', 'at', 'doc') if k in case}
    check_strict(case['s'], case['ctx'], acc, sub, must_reject=(sub == 'faults'), extra=extra or None)
    return acc.violations


def finish(tier, merged, plan):
    errs = []
    c = merged.counts
    if c['rejected'] < 1000 or c['accepted'] < 1000:
        errs.append('sanity floor: accepted=%d rejected=%d' % (c['accepted'], c['rejected']))
    if len(merged.outcomes) < 8:
        errs.append('sanity floor: only %d distinct error kinds' % len(merged.outcomes))
    return errs
