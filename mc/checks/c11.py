# -*- coding: utf-8 -*-
"""C11 - tokenizer is lossless, always advances, peeking has no effect.

ES: a state is (remaining input, configuration).  The reader only looks forward from its
position, so the states reachable from all words of length <= N are the words of length
<= N (suffix-closed) x configurations; each state has one outgoing transition (read one
token).  The graph is explored completely by one transition per state; the suffix
canonicalisation itself ((s,p) ~ (s[p:],0)) and the whole-run corollaries are checked
exhaustively on complete runs for words of length <= R.
"""
import itertools

from mc import engine, words
from mc.engine import run_guarded, exc_frame, CaseTimeout

ID = 'C11'
LEVEL = 'model_checking'
TECHNIQUE = ('explicit-state exploration of the real LatexTokenReader: every (suffix, configuration) '
             'state, one read transition each, plus complete runs; invariants on every transition')

ALPHA = words.SIGMA_R + ['\\begin{a}', '\\end{a}', '\r']

BOUNDS = {'quick': dict(N=3, R=2, X=2, LR=4), 'thorough': dict(N=4, R=4, X=3, LR=5)}
# lexemes for longer complete runs (under the configurations with every switch on, and the extras)
LEX = ['%c\n', '\n', ' ', '\\a', '\\a ', 'b', '{', '}', '$', '\\\\', '~']

MATH = [
    ('text', dict(in_math_mode=False)),
    ('$', dict(in_math_mode=True, math_mode_delimiter='$')),
    ('$$', dict(in_math_mode=True, math_mode_delimiter='$$')),
    ('\\(', dict(in_math_mode=True, math_mode_delimiter='\\(')),
    ('\\[', dict(in_math_mode=True, math_mode_delimiter='\\[')),
    ('math-nodelim', dict(in_math_mode=True, math_mode_delimiter=None)),
]
SWITCHES = ['enable_double_newline_paragraphs', 'enable_macros', 'enable_environments',
            'enable_comments', 'enable_groups', 'enable_specials', 'enable_math']
GROUPS = [('default', None), ('+[]', [('{', '}'), ('[', ']')])]

_CONFIGS = None
_BYKEY = {}


def configs():
    """List of (config-key tuple, ParsingState, tolerant) - 6144 regular + extras."""
    global _CONFIGS
    if _CONFIGS is not None:
        return _CONFIGS
    from pylatexenc.latexnodes import ParsingState
    from pylatexenc.latexwalker import get_default_latex_context_db
    ctxd = get_default_latex_context_db()
    out = []
    for (mname, mkw) in MATH:
        for bits in itertools.product((True, False), repeat=len(SWITCHES)):
            for (gname, gd) in GROUPS:
                for (cname, ctx) in (('noctx', None), ('ctxD', ctxd)):
                    kw = dict(mkw)
                    kw.update(dict(zip(SWITCHES, bits)))
                    if gd is not None:
                        kw['latex_group_delimiters'] = gd
                    kw['latex_context'] = ctx
                    ps = ParsingState(**kw)
                    off = ''.join('1' if b else '0' for b in bits)
                    for tol in (False, True):
                        out.append(((mname, off, gname, cname, 'tolerant' if tol else 'strict'), ps, tol))
    # extras: forbidden characters, other escape / comment characters
    extras = [
        ('forbid-$a', dict(forbidden_characters='$a', enable_math=False)),
        ('forbid-%~', dict(forbidden_characters='%~', enable_comments=False, enable_specials=False)),
        ('forbid-list', dict(forbidden_characters=['{', '}'], enable_groups=False)),
        ('esc-*', dict(macro_escape_char='*')),
        ('comment-~', dict(comment_start='~')),
        ('comment-%%', dict(comment_start='%%')),
        ('alpha-*', dict(macro_alpha_chars='a*')),
    ]
    for (ename, ekw) in extras:
        for (cname, ctx) in (('noctx', None), ('ctxD', ctxd)):
            kw = dict(ekw)
            kw['latex_context'] = ctx
            ps = ParsingState(**kw)
            for tol in (False, True):
                out.append(((ename, '-', 'default', cname, 'tolerant' if tol else 'strict'), ps, tol))
    _CONFIGS = out
    for (ckey, ps, tol) in out:
        _BYKEY[ckey] = ps
    return out


def partners(ckey, all_of_them):
    """States that differ from the configuration only in the math setting (next in rotation, or all five)."""
    names = [m[0] for m in MATH]
    if ckey[0] not in names:
        return []
    i = names.index(ckey[0])
    js = range(1, len(names)) if all_of_them else (1,)
    return [_BYKEY[(names[(i + j) % len(names)],) + tuple(ckey[1:])] for j in js]


def cross_state(s, ps, tol, others, viol):
    """peek under one parsing state, then read under another: the read must be what a fresh reader returns."""
    from pylatexenc.latexnodes import LatexTokenReader
    for ps2 in others:
        tr = LatexTokenReader(s, tolerant_parsing=tol)
        _read(tr.peek_token, ps)
        k2, c2, _ = _read(tr.next_token, ps2)
        p2 = tr.cur_pos()
        tr0 = LatexTokenReader(s, tolerant_parsing=tol)
        k0, c0, _ = _read(tr0.next_token, ps2)
        if (k2, c2, p2) != (k0, c0, tr0.cur_pos()):
            viol('peek-under-other-state-changes-read', [k2, c2, p2], [k0, c0, tr0.cur_pos()])
            return
        # read under one state, go back to the token, read under the other state
        tr = LatexTokenReader(s, tolerant_parsing=tol)
        k1, c1, t1 = _read(tr.next_token, ps)
        if k1 == 'tok':
            tr.move_to_token(t1)
            k3, c3, _ = _read(tr.next_token, ps2)
            if (k3, c3, tr.cur_pos()) != (k0, c0, tr0.cur_pos()):
                viol('read-after-going-back-ignores-the-state', [k3, c3, tr.cur_pos()], [k0, c0, tr0.cur_pos()])
                return


def canon_tok(t):
    a = t.arg
    if t.tok == 'specials':
        a = ('specials', getattr(a, 'specials_chars', None))
    return (t.tok, a, t.pos, t.pos_end, t.pre_space, getattr(t, 'post_space', ''))


def shift_tok(c, d):
    return (c[0], c[1], c[2] + d, c[3] + d, c[4], c[5])


def _read(fn, ps):
    """('tok', canon) | ('eos', final_space) | ('err', type name) | ('exc', ...) | ('timeout',)"""
    from pylatexenc.latexnodes import LatexWalkerEndOfStream, LatexWalkerTokenParseError
    try:
        t = fn(parsing_state=ps)
        return ('tok', canon_tok(t), t)
    except LatexWalkerEndOfStream as e:
        return ('eos', getattr(e, 'final_space', None), None)
    except LatexWalkerTokenParseError as e:
        return ('err', type(e).__name__, None)
    except Exception as e:
        return ('exc', type(e).__name__ + '@' + exc_frame(e), None)


def transition(s, p0, ps, tol, viol):
    """Explore the single transition out of state (s, p0).  Returns (kind, canon-token-or-None,
    next position or None).  viol(kind, observed, expected) records a violation."""
    from pylatexenc.latexnodes import LatexTokenReader
    tr = LatexTokenReader(s, tolerant_parsing=tol)
    if p0:
        tr.move_to_pos_chars(p0)
    k1, c1, t1 = _read(tr.peek_token, ps)
    if tr.cur_pos() != p0:
        viol('peek-moves', [k1, c1, tr.cur_pos()], p0)
        tr.move_to_pos_chars(p0)
    if k1 == 'exc':
        viol('exception', c1, None)
        return ('exc', None, None)
    if k1 == 'err':
        if tol:
            viol('tolerant-raises', c1, None)
        # strict: both reads must fail alike, position unchanged
        k2, c2, _ = _read(tr.next_token, ps)
        if (k2, c2) != (k1, c1) or tr.cur_pos() != p0:
            viol('error-not-repeatable', [k2, c2, tr.cur_pos()], [k1, c1, p0])
        return ('err', c1, None)
    if k1 == 'eos':
        if c1 != s[p0:]:
            viol('eos-final-space', c1, s[p0:])
        k2, c2, _ = _read(tr.next_token, ps)
        if (k2, c2) != (k1, c1):
            viol('eos-not-repeatable', [k2, c2], [k1, c1])
        return ('eos', c1, None)
    # a token
    k2, c2, t2 = _read(tr.next_token, ps)
    p1 = tr.cur_pos()
    if (k2, c2) != (k1, c1):
        viol('peek-differs-from-read', [k2, c2], [k1, c1])
        return ('tok', c1, None)
    if not (p0 < p1 <= len(s)):
        viol('no-progress', [c2, p1], 'position in (%d, %d]' % (p0, len(s)))
        return ('tok', c1, None)
    if c2[4] + s[c2[2]:c2[3]] != s[p0:p1] or c2[2] != p0 + len(c2[4]) or c2[3] != p1:
        viol('lossy-token', [c2, p1], s[p0:p1])
    # rewind and read again
    try:
        tr.move_to_token(t2)
        pr = tr.cur_pos()
    except Exception as e:
        viol('exception', type(e).__name__ + '@' + exc_frame(e), None)
        return ('tok', c1, p1)
    if pr != p0:
        viol('rewind-position', pr, p0)
    k3, c3, _ = _read(tr.next_token, ps)
    if (k3, c3) != (k2, c2) or tr.cur_pos() != p1:
        viol('reread-differs', [k3, c3, tr.cur_pos()], [k2, c2, p1])
    return ('tok', c1, p1)


def short_lived(s, ps, tol, viol):
    """Short-lived states (built inline, freed at once) that differ in the macro-name alphabet: nothing may be
    remembered about a state that no longer exists (its address is reused by the next one)."""
    from pylatexenc.latexnodes import LatexTokenReader
    for (a1, a2) in (('a*', 'a'), ('a', 'a*')):
        keep = ps.sub_context(macro_alpha_chars=a2)
        tr0 = LatexTokenReader(s, tolerant_parsing=tol)
        k0, c0, _ = _read(tr0.next_token, keep)
        p0 = tr0.cur_pos()
        tr = LatexTokenReader(s, tolerant_parsing=tol)
        t1 = ps.sub_context(macro_alpha_chars=a1)
        i1 = id(t1)
        _read(tr.peek_token, t1)
        del t1
        # build states until one lands at the address of the one just freed (kept ones stay alive meanwhile)
        kept = []
        t2 = None
        for _ in range(64):
            t2 = ps.sub_context(macro_alpha_chars=a2)
            if id(t2) == i1:
                break
            kept.append(t2)
            t2 = None
        if t2 is None:
            return          # no address reuse provoked: nothing to observe
        k2, c2, _ = _read(tr.next_token, t2)
        if (k2, c2, tr.cur_pos()) != (k0, c0, p0):
            viol('peek-under-short-lived-state-changes-read', [k2, c2, tr.cur_pos()], [k0, c0, p0])
            return


def full_run(s, ps, tol, viol, cache_first):
    """Complete run from position 0: <= len(s) reads, concatenation reproduces s, and the
    token read at (s,p) equals the token of state (s[p:],0) shifted by p."""
    from pylatexenc.latexnodes import LatexTokenReader
    tr = LatexTokenReader(s, tolerant_parsing=tol)
    pieces = []
    reads = 0
    first_tok = None
    alltoks = []
    while True:
        p0 = tr.cur_pos()
        k, c, t = _read(tr.next_token, ps)
        if k == 'tok':
            alltoks.append((c, t))
            if first_tok is None:
                first_tok = (c, t)
            reads += 1
            p1 = tr.cur_pos()
            if p1 <= p0 or reads > len(s):
                viol('run-no-progress', [c, p0, p1, reads], None)
                return None
            pieces.append(c[4] + s[c[2]:c[3]])
            if p0 > 0:
                kk, cc, _ = cache_first(s[p0:])
                if kk != 'tok' or shift_tok(cc, p0) != c:
                    viol('suffix-canonicalisation', [p0, c], [kk, cc])
        elif k == 'eos':
            pieces.append(c or '')
            if ''.join(pieces) != s:
                viol('run-lossy', pieces, s)
            # the end of the stream is not sticky: peeking there changes nothing, and after a rewind the run starts over
            kp, cp, _ = _read(tr.peek_token, ps)
            if (kp, cp) != (k, c):
                viol('eos-not-repeatable', [kp, cp], [k, c])
            # going back to any token of the run, last to first, and reading again gives an equal token
            for (ci, ti) in reversed(alltoks):
                tr.move_to_token(ti)
                kk, cc, _ = _read(tr.next_token, ps)
                if (kk, cc) != ('tok', ci):
                    viol('reread-differs', ['after a complete run', kk, cc], ['tok', ci])
                    break
            if first_tok is not None:
                for how in ('token', 'pos'):
                    if how == 'token':
                        tr.move_to_token(first_tok[1])
                    else:
                        tr.move_to_pos_chars(0)
                    k4, c4, _ = _read(tr.next_token, ps)
                    if (k4, c4) != ('tok', first_tok[0]):
                        viol('reread-after-end-of-stream-differs', [how, k4, c4], ['tok', first_tok[0]])
                    # and run to the end again
                    toks2 = 0
                    while k4 == 'tok' and toks2 <= len(s) + 1:
                        toks2 += 1
                        k4, c4, _ = _read(tr.next_token, ps)
                    if (k4, c4, toks2) != ('eos', c, reads):
                        viol('second-run-after-rewind-differs', [how, k4, c4, toks2], ['eos', c, reads])
            return reads
        elif k == 'err':
            if tol:
                viol('tolerant-raises', c, None)
            return reads
        else:
            viol('exception', c, None)
            return None


def check_word(s, acc, do_run, only_cfg=None, do_cross=True, lex=False):
    for (ckey, ps, tol) in configs():
        if only_cfg is not None and list(ckey) != list(only_cfg):
            continue
        if lex and ckey[1] not in ('1111111', '-'):
            continue

        def viol(kind, observed, expected, _ckey=ckey):
            sig = dict(kind=kind, mode=_ckey[4])
            if kind == 'exception':
                sig['exc'] = observed
            acc.violation(ID, 'tok', dict(s=s, cfg=list(_ckey)), sig,
                          observed=repr(observed), expected=repr(expected))

        st, res = run_guarded(transition, s, 0, ps, tol, viol)
        acc.count('states')
        acc.count('transitions')
        acc.count('evaluations')
        if st == 'timeout':
            viol('hang', None, None)
            continue
        if st == 'exc':
            viol('exception', type(res).__name__ + '@' + exc_frame(res), None)
            continue
        kind, c, p1 = res
        acc.count('kind_' + kind)
        if kind == 'tok':
            acc.count('tok_' + c[0])
            acc.count('nontrivial')
            acc.outcome((c[0], c[1], c[2], c[3] - c[2], len(c[4]), len(c[5]), ckey[0], ckey[4]))
        if do_cross and kind in ('tok', 'eos'):
            acc.count('cross_state_reads')
            st, res = run_guarded(cross_state, s, ps, tol, partners(ckey, True), viol)
            if st == 'timeout':
                viol('hang', None, None)
            elif st == 'exc':
                viol('exception', type(res).__name__ + '@' + exc_frame(res), None)
        if ckey[1] == '1111111' and '\\' in s:
            st, res = run_guarded(short_lived, s, ps, tol, viol)
            if st == 'timeout':
                viol('hang', None, None)
            elif st == 'exc':
                viol('exception', type(res).__name__ + '@' + exc_frame(res), None)
        if do_run:
            def first(suffix, _ps=ps, _tol=tol):
                from pylatexenc.latexnodes import LatexTokenReader
                tr2 = LatexTokenReader(suffix, tolerant_parsing=_tol)
                return _read(tr2.next_token, _ps)
            st, res = run_guarded(full_run, s, ps, tol, viol, first)
            acc.count('full_runs')
            if st == 'timeout':
                viol('hang', None, None)
            elif st == 'exc':
                viol('exception', type(res).__name__ + '@' + exc_frame(res), None)
            elif res is not None:
                acc.count('traces_validated_against_impl')


def plan(tier):
    b = BOUNDS[tier]
    shards = words.prefix_shards(ALPHA, b['N'], 2)
    shards += [('lex', i, j) for i in range(len(LEX)) for j in range(len(LEX))]
    return dict(
        shards=shards,
        bounds=dict(b, alphabet=ALPHA, configurations=len(configs())),
        rule=('state = (remaining input, configuration): every word of length <= N over the 16-symbol '
              'alphabet x every configuration (6 math settings x 2^7 enable_* switches x 2 group-delimiter '
              'lists x {no context, default context} x {strict, tolerant} + 28 extras with forbidden/escape/'
              'comment characters); one transition (peek, read, rewind, re-read) per state, plus peek under the state and read under a state that differs only in the math setting (all five other settings, words of length <= X); complete runs for '
              'words of length <= R, followed by a rewind from the end of the stream and a second complete run and a re-read of every token last to first; the same complete runs for all words of length <= LR over 11 lexemes (comment, newline, blank, macro with and without trailing blank, ...) under the 72 configurations with every switch on or an extra; peek/read under short-lived states that differ in the macro-name alphabet; read, go back, read under another state.  non-trivial = states whose transition yields a token (not end of '
              'stream / strict error); states are distinct by construction.'),
        assumptions=['the state graph over suffixes is closed: checked by the suffix-canonicalisation comparison on every step of every complete run'],
    )


def run_shard(shard, tier, acc):
    b = BOUNDS[tier]
    if shard[0] == 'lex':
        pre = (shard[1], shard[2])
        if pre == (0, 0):
            for w in [()] + [(i,) for i in range(len(LEX))]:
                check_word(''.join(LEX[i] for i in w), acc, do_run=True, do_cross=False, lex=True)
        for n in range(0, b['LR'] - 2 + 1):
            for suf in itertools.product(range(len(LEX)), repeat=n):
                s = ''.join(LEX[i] for i in pre + suf)
                check_word(s, acc, do_run=True, do_cross=False, lex=True)
        return
    for w in words.iter_shard(ALPHA, b['N'], shard):
        s = words.render(ALPHA, w)
        check_word(s, acc, do_run=(len(w) <= b['R']), do_cross=(len(w) <= b['X']))
        acc.sample(dict(s=s, cfg='all %d configurations' % len(configs())))


def replay(sub, case):
    acc = engine.Acc()
    check_word(case['s'], acc, do_run=True, only_cfg=case['cfg'])
    return acc.violations


def finish(tier, merged, plan):
    errs = []
    c = merged.counts
    for k in ('tok_char', 'tok_macro', 'tok_comment', 'tok_brace_open', 'tok_brace_close',
              'tok_specials', 'tok_mathmode_inline', 'tok_mathmode_display',
              'tok_begin_environment', 'tok_end_environment', 'kind_eos', 'kind_err'):
        if c[k] < 10:
            errs.append('sanity floor: %s seen only %d times' % (k, c[k]))
    if len(merged.outcomes) < 100:
        errs.append('sanity floor: only %d distinct outcomes' % len(merged.outcomes))
    return errs
