# -*- coding: utf-8 -*-
r"""C07 - latex2text is total: a string for every input and option set.

BE: every word of the sweep spaces; name sweep: every macro / environment name of the
default walker and text databases in every argument frame; each crossed with all 128
combinations of math_mode x strict_latex_spaces x keep_comments x keep_braced_groups x
fill_text.  latex_to_text() itself is called with the default options and 8 further option
sets; the remaining option sets use its documented equivalent (one tolerant parse, then
nodelist_to_text per option set).
"""
import itertools
from mc import engine, sweeps, contexts
from mc.engine import run_guarded, exc_frame

ID = 'C07'
LEVEL = 'exploration'
TECHNIQUE = 'bounded-exhaustive words + exhaustive sweep of every known macro/environment name in every argument frame x all option combinations'

SPECS = {'quick': dict(R=4, L=3, A=None, E=3), 'thorough': dict(R=5, L=4, A=None, E=4)}

MACRO_FRAMES = ['\\M', '\\M{}', '\\M{a}', '\\M[a]{b}', '\\M*', '\\M{a}{b}', '\\M a', '\\M}', '\\textbf\\M',
                '\\frac\\M\\M', '\\hat\\M', '\\sqrt[\\M]{\\M}', '$\\M$', '{\\M', '\\M{a}{b}{c}{d}', '\\M[', '\\M{',
                '\\M[\\M[a]{b}]{c}', '\\M[\\sqrt[3]{n}]{y}', '\\sqrt[\\M[3]{n}]{y}', '\\item[\\M[a]{b}]',
                # the macro inside front matter that a later \maketitle renders (state kept on the converter between nodes)
                '\\title{\\M}\\maketitle', '\\date\\M\\maketitle', '\\author{\\M{a}}\\title{b}\\maketitle']
ENV_FRAMES = ['\\begin{E}\\end{E}', '\\begin{E}a\\end{E}', '\\begin{E}{c}a&b\\\\c\\end{E}', '\\begin{E}[x]a\\end{E}',
              '\\begin{E}\\begin{E}a\\end{E}\\end{E}', '\\begin{E}a', '\\begin{E}{c}\\end{E}', '\\begin{E}{c}&\\\\\\end{E}',
              # ragged rows (first row shortest / longest / empty), also inside a formula; optional argument nested in the optional argument
              '\\begin{E}a\\\\b&c\\end{E}', '\\begin{E}\\\\a&b\\\\\\end{E}', '\\begin{E}a&b\\\\c&d&e\\\\f\\end{E}',
              '$\\begin{E}a\\\\b&c&d\\end{E}$', '\\begin{E}[\\sqrt[3]{n}]a\\end{E}', '\\begin{E}[\\begin{E}[x]a\\end{E}]b\\end{E}']

OPTS = [dict(math_mode=m, strict_latex_spaces=s, keep_comments=kc, keep_braced_groups=kb, fill_text=ft)
        for m in ('text', 'with-delimiters', 'verbatim', 'remove')
        for s in ('macros', 'based-on-source', 'except-in-equations', True)
        for kc in (False, True) for kb in (False, True) for ft in (None, 20)]
DIRECT = [0, 1, 37, 64, 127, 90, 23, 110]     # option sets for which latex_to_text() itself is called

_L2T = None


def l2ts():
    global _L2T
    if _L2T is None:
        from pylatexenc.latex2text import LatexNodes2Text
        _L2T = [LatexNodes2Text(**o) for o in OPTS]
    return _L2T


def all_names():
    from pylatexenc import latexwalker, latex2text
    m, e = set(), set()
    for db in (latexwalker.get_default_latex_context_db(), latex2text.get_default_latex_context_db()):
        for s in db.iter_macro_specs():
            m.add(s.macroname)
        for s in db.iter_environment_specs():
            e.add(s.environmentname)
    return sorted(m), sorted(e)


# converter objects keep state between calls (document title, caches): call histories on ONE converter object
HIST_MENU = ['\\title{}', '\\title{a}', '\\title{\\label{k}}', '\\author{}', '\\date{b}', '\\maketitle',
             '\\begin{pmatrix}a&b\\end{pmatrix}', '\\pmatrix{a}', '\\begin{equation}a\\end{equation}', '\\equation', '\\align{a}',
             '\\begin{align}$c$\\end{align}', '\\item[a]', '\\input{x}', '%c', '\\title{a\\maketitle}', '\\date\\maketitle']
HIST_OPTS = [0, 37, 64, 127]


def check_histories(first, depth, acc):
    from pylatexenc.latex2text import LatexNodes2Text
    n = len(HIST_MENU)
    for k in range(0, depth):
        for rest in itertools.product(range(n), repeat=k):
            hist = (first,) + rest
            for oi in HIST_OPTS:
                acc.count('evaluations')
                acc.count('histories')
                acc.count('nontrivial')
                l2t = LatexNodes2Text(**OPTS[oi])
                for step, i in enumerate(hist):
                    st, res = run_guarded(l2t.latex_to_text, HIST_MENU[i])
                    if st != 'ok' or not isinstance(res, str):
                        sig = dict(kind='hang' if st == 'timeout' else ('exception' if st == 'exc' else 'not-a-string'), via='call-history')
                        if st == 'exc':
                            sig['exc'] = type(res).__name__
                            sig['frame'] = exc_frame(res)
                        acc.violation(ID, 'hist', dict(history=[HIST_MENU[j] for j in hist], step=step, opt=oi), sig, observed=repr(res)[:300])
                        break
            # and all of it in one document (self-quoting front matter: fresh converters, see check_fresh)
            doc = ' '.join(HIST_MENU[i] for i in hist)
            if any('\\maketitle}' in HIST_MENU[i] or HIST_MENU[i] == '\\date\\maketitle' for i in hist):
                check_fresh(doc, acc, 'hist-doc')
            else:
                check_input(doc, acc, 'hist-doc')


def check_fresh(s, acc, sub):
    """latex_to_text of s on a fresh converter for every option set."""
    from pylatexenc.latex2text import LatexNodes2Text
    acc.count('evaluations')
    acc.count('nontrivial')
    for oi, o in enumerate(OPTS):
        st, res = run_guarded(LatexNodes2Text(**o).latex_to_text, s)
        if st != 'ok' or not isinstance(res, str):
            sig = dict(kind='hang' if st == 'timeout' else ('exception' if st == 'exc' else 'not-a-string'), via='latex_to_text-fresh-converter')
            if st == 'exc':
                sig['exc'] = type(res).__name__
                sig['frame'] = exc_frame(res)
            acc.violation(ID, sub, dict(s=s, opt=oi, fresh=True), sig, observed=repr(res)[:300])
            return


def plan(tier):
    spec = SPECS[tier]
    m, e = all_names()
    shards = [('be', sh) for sh in sweeps.shards(spec)]
    shards += [('macros', i) for i in range(32)] + [('envs', i) for i in range(8)]
    shards += [('hist', i) for i in range(len(HIST_MENU))]
    return dict(
        shards=shards, bounds=dict(spec, macro_names=len(m), env_names=len(e), option_sets=len(OPTS),
                                   macro_frames=MACRO_FRAMES, env_frames=ENV_FRAMES),
        rule=(sweeps.describe(spec) + '; name sweep: each of the %d macro names of the default walker+text databases in %d '
              'frames and each of the %d environment names in %d frames; every input x all %d option sets; call histories: all sequences of <= 3 (4) calls over a %d-snippet menu (title/author/date/maketitle forms, environment and macro of the same name, math inside a math environment, ...) on ONE converter object under 4 option sets, and the same snippets in one document (one evaluation = '
              'one input with all option sets).  non-trivial = inputs whose tolerant parse contains a macro, environment, '
              'formula or specials node; inputs are distinct by construction.' % (len(m), len(MACRO_FRAMES), len(e), len(ENV_FRAMES), len(OPTS), len(HIST_MENU))),
        assumptions=['latex_to_text(s) == nodelist_to_text(tolerant parse of s) as documented; latex_to_text itself is exercised for 8 option sets on every input'],
    )


def _parse_default(s):
    from pylatexenc.latexwalker import LatexWalker
    from pylatexenc.latexnodes.parsers import LatexGeneralNodesParser
    lw = LatexWalker(s)
    nodes, _ = lw.parse_content(LatexGeneralNodesParser())
    return nodes


def check_input(s, acc, sub, only=None):
    from mc import canon
    acc.count('evaluations')
    L = l2ts()

    def bad(i, st, res, how):
        sig = dict(kind='hang' if st == 'timeout' else ('exception' if st == 'exc' else 'not-a-string'), via=how)
        if st == 'exc':
            sig['exc'] = type(res).__name__
            sig['frame'] = exc_frame(res)
        acc.violation(ID, sub, dict(s=s, opt=i), sig, observed=repr(res)[:300])

    st, nodes = run_guarded(_parse_default, s)
    if st != 'ok':
        bad(-1, st, nodes, 'tolerant-parse')
        return
    kinds = set(canon.kind_of(n) for n in canon.iter_nodes(nodes)) if nodes is not None else set()
    if kinds & {'macro', 'environment', 'math', 'specials'}:
        acc.count('nontrivial')
    outs = set()
    for i, l2t in enumerate(L):
        if only is not None and i != only:
            continue
        st, res = run_guarded(l2t.nodelist_to_text, nodes)
        acc.count('renderings')
        if st != 'ok' or not isinstance(res, str):
            bad(i, st, res, 'nodelist_to_text')
            break
        outs.add(res)
        if i in DIRECT:
            st2, res2 = run_guarded(l2t.latex_to_text, s)
            if st2 != 'ok' or not isinstance(res2, str):
                bad(i, st2, res2, 'latex_to_text')
                break
            if res2 != res and sub != 'hist-doc':      # (documents with \title/\maketitle change converter state between two renderings)
                acc.violation(ID, sub, dict(s=s, opt=i), dict(kind='latex_to_text-differs-from-documented-equivalent'),
                              observed=repr(res2)[:300], expected=repr(res)[:300])
    acc.outcome(tuple(sorted(outs))[:4])


def run_shard(shard, tier, acc):
    sub, sh = shard
    if sub == 'be':
        for s, ctx in sweeps.iter_shard(SPECS[tier], sh):
            check_input(s, acc, sub)
            acc.sample(dict(s=s))
    elif sub == 'hist':
        check_histories(sh, 3 if tier == 'quick' else 4, acc)
    elif sub == 'macros':
        m, e = all_names()
        for name in m[sh::32]:
            for fr in MACRO_FRAMES:
                s = fr.replace('\\M', '\\' + name + (' ' if name[-1:].isalpha() and False else ''))
                if name == 'maketitle' and fr.endswith('\\maketitle'):
                    # front matter that quotes \maketitle itself: on the long-lived converters of this sweep the stored title would
                    # grow with every evaluation (state kept on the converter by design); these three inputs get fresh converters
                    check_fresh(s, acc, sub)
                else:
                    check_input(s, acc, sub)
                acc.count('name_frames')
            acc.sample(dict(macro=name))
    else:
        m, e = all_names()
        for name in e[sh::8]:
            for fr in ENV_FRAMES:
                s = fr.replace('{E}', '{' + name + '}')
                check_input(s, acc, sub)
                acc.count('name_frames')
            acc.sample(dict(environment=name))


def replay(sub, case):
    acc = engine.Acc()
    if sub == 'hist':
        from pylatexenc.latex2text import LatexNodes2Text
        l2t = LatexNodes2Text(**OPTS[case['opt']])
        for step, doc in enumerate(case['history']):
            st, res = run_guarded(l2t.latex_to_text, doc)
            if st != 'ok' or not isinstance(res, str):
                sig = dict(kind='hang' if st == 'timeout' else ('exception' if st == 'exc' else 'not-a-string'), via='call-history')
                if st == 'exc':
                    sig['exc'] = type(res).__name__
                    sig['frame'] = exc_frame(res)
                acc.violation(ID, 'hist', case, sig, observed=repr(res)[:300])
                break
        return acc.violations
    if case.get('fresh'):
        check_fresh(case['s'], acc, sub)
        return acc.violations
    check_input(case['s'], acc, sub, only=(case['opt'] if case.get('opt', -1) >= 0 else None))
    return acc.violations


def finish(tier, merged, plan):
    errs = []
    c = merged.counts
    if c['name_frames'] < 10000:
        errs.append('sanity floor: name frames %d' % c['name_frames'])
    if len(merged.outcomes) < 1000:
        errs.append('sanity floor: distinct outputs %d' % len(merged.outcomes))
    return errs
