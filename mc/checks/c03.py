# -*- coding: utf-8 -*-
"""C03 - latex2text renders the core sub-language by its documented rules, compositionally.

DD: every derivation of the core grammar (text, groups, formatting / symbol / accent macros,
fractions and roots, specials, comments, paragraph breaks, itemize + \\item, an unknown
environment, the four math forms, equation) up to the size bound with bounded whitespace /
comment deviations x 4 strict_latex_spaces policies x 4 math modes x keep_braced_groups.
Oracle: the reference renderer mc/ref/l2t.py (documented rules applied to the parsed tree) -
exact equality; plus the metamorphic consequence: for self-contained blocks A, B
l2t(A + sep + B) == l2t(A) + sep + l2t(B) for sep in {paragraph break, space}.
"""
import itertools

from mc import engine, contexts, docgen
from mc.engine import run_guarded, exc_frame
from mc.ref import l2t as ref

ID = 'C03'
LEVEL = 'exploration'
TECHNIQUE = 'exhaustive derivations of the core grammar with bounded deviations x option product against a reference renderer; metamorphic composition check'

PROFILES = {
    'quick': [dict(ctx='C', size=2, cmax=99, d=1), dict(ctx='C', size=3, cmax=0, d=0)],
    'thorough': [dict(ctx='C', size=2, cmax=99, d=2), dict(ctx='C', size=3, cmax=0, d=1), dict(ctx='C', size=3, cmax=1, d=0)],
}
SLS = ['macros', 'based-on-source', 'except-in-equations', True]
MM = ['text', 'with-delimiters', 'verbatim', 'remove']
OPTS = [(s, m, k) for s in SLS for m in MM for k in (False, True)]
NSL = 48
_L2T = {}


def l2t_obj(o):
    if not _L2T:
        # all converter objects are created up front, in a fixed order, in the exploration and in a replay
        # alike: converters of different option sets must not influence each other
        from pylatexenc.latex2text import LatexNodes2Text
        for oo in OPTS:
            _L2T[oo] = LatexNodes2Text(strict_latex_spaces=oo[0], math_mode=oo[1], keep_braced_groups=oo[2])
    return _L2T[o]


def relabel(items, counter=None):
    """Give every text item its own letter (a, b, c, ...) so that a rendering which repeats or swaps
    arguments of different occurrences is visible."""
    if counter is None:
        counter = [0]
    out = []
    for it in items:
        if it[0] == 'T':
            out.append(('T', 'abcdfghijk'[counter[0] % 10]))
            counter[0] += 1
        elif it[0] in ('G', 'NB'):
            out.append((it[0], relabel(it[1], counter)))
        elif it[0] == 'Math':
            out.append(('Math', it[1], relabel(it[2], counter)))
        elif it[0] in ('Call', 'Env'):
            vals = []
            for v in it[2]:
                if isinstance(v, tuple) and v and v[0] in ('grp', 'opt', 'del'):
                    vals.append(v[:-1] + (relabel(v[-1], counter),))
                elif isinstance(v, tuple) and v and v[0] == 'tok':
                    vals.append(('tok', 'abcdfghijk'[counter[0] % 10]))
                    counter[0] += 1
                else:
                    vals.append(v)
            vals = tuple(vals)
            if it[0] == 'Call':
                out.append(('Call', it[1], vals))
            else:
                out.append(('Env', it[1], vals, relabel(it[3], counter)))
        else:
            out.append(it)
    return tuple(out)


def iter_docs(tier, shard):
    pi, k = shard
    p = PROFILES[tier][pi]
    for items in docgen.iter_doc_slice(p, k):
        items = relabel(items)
        base = docgen.render(items, 'C')
        for dv in docgen.deviation_vectors(base.nb, p['d']):
            d = base if not dv else docgen.render(items, 'C', dv)
            if d.valid:
                yield d


def plan(tier):
    shards = [('docs', (pi, k)) for pi in range(len(PROFILES[tier])) for k in range(NSL)] + [('compose', k) for k in range(16)]
    shards += [('adj', k) for k in range(8)]
    shards += [('hist', k) for k in range(len(HIST_DOCS))]
    return dict(
        shards=shards, bounds=dict(profiles=PROFILES[tier], option_sets=len(OPTS)),
        rule=('core grammar (mc/docgen.py SIGS["C"]): ' + '; '.join('size <= %d, <= %s non-default argument forms, <= %d deviations'
              % (p['size'], p['cmax'] if p['cmax'] < 99 else 'any', p['d']) for p in PROFILES[tier]) +
              ' x 32 option sets (4 strict_latex_spaces x 4 math_mode x keep_braced_groups): latex_to_text(strict parse) == reference '
              'renderer, exactly; composition: all ordered pairs of self-contained blocks (derivations of size <= 2 that begin and end '
              'with text) joined by a paragraph break / a space under every option set; adjacency family: bare symbol macro, one single-item construct, text, '
              'at top level / in a group / in each formula form, with one whitespace deviation at every boundary; the same call twice with different texts; converter call histories: all sequences of <= 2 (3) documents of a 14-document menu (formula nested in a formula through a text-mode argument, display math, equation environment, policy-sensitive adjacencies, lists, accents, specials, ...) converted by ONE converter per option set, each result compared with the reference for that document alone, and each ordered pair as one document joined by a paragraph break.  one evaluation = one document under all option sets; '
              'non-trivial = documents containing a macro, specials, comment, environment or formula.'),
        assumptions=['the reference renderer works on the parsed tree: C03 presupposes C01/C02 (tree is the written structure)',
                     'symbol / accent / specials tables for the ~25 names used are transcribed from the documentation, not imported'],
    )


def check_doc(doc, acc, sub='docs', fresh=False):
    case = dict(s=doc.text, items=repr(doc.items), devs={str(k): v for k, v in doc.devs.items()})
    if docgen.bracket_under_nested_pair(doc.items):
        acc.count('known_c02_finding')      # recorded C02 finding: such a document is not parsed as written
        return
    acc.count('evaluations')
    st, res = run_guarded(contexts.parse, doc.text, 'C', False)
    if st != 'ok':
        acc.count('not_parsed')       # C02 decides
        return
    nodes = res[1]
    if any(e[0] != 'c' for e in doc.skel):
        acc.count('nontrivial')
    from pylatexenc.latex2text import LatexNodes2Text
    for o in (OPTS[::5] if fresh else OPTS):
        r = ref.Ref(strict_latex_spaces=o[0], math_mode=o[1], keep_braced_groups=o[2])
        try:
            exp = r.nodes(nodes)
        except ref.Unsupported as e:
            acc.count('unsupported')
            return
        # latex_to_text(s) is documented as parse + nodelist_to_text(nodes): the entry point itself is used for
        # every 5th option set, the parsed tree (one parse per document) for the others
        if fresh:
            # a converter object of its own for this document: whatever it remembers comes from this document
            conv = LatexNodes2Text(strict_latex_spaces=o[0], math_mode=o[1], keep_braced_groups=o[2])
            st, got = run_guarded(conv.latex_to_text, doc.text, tolerant_parsing=False)
        elif OPTS.index(o) % 5 == 0:
            st, got = run_guarded(l2t_obj(o).latex_to_text, doc.text, tolerant_parsing=False)
        else:
            st, got = run_guarded(l2t_obj(o).nodelist_to_text, nodes)
        acc.count('renderings')
        if st != 'ok':
            acc.violation(ID, sub, dict(case, opt=list(map(str, o))), dict(kind='latex_to_text-raises' if st == 'exc' else 'hang',
                                                                     exc=type(got).__name__ if st == 'exc' else None))
            return
        if got != exp:
            acc.violation(ID, sub, dict(case, opt=list(map(str, o))),
                          dict(kind='text-differs-from-documented-rules', how=_how(got, exp), policy=str(o[0]), math_mode=o[1]),
                          observed=repr(got), expected=repr(exp))
            return
    acc.outcome(exp)


def check_text(text, acc, sub='histdoc'):
    acc.count('evaluations')
    acc.count('nontrivial')
    st, res = run_guarded(contexts.parse, text, 'C', False)
    if st != 'ok':
        acc.count('not_parsed')
        return
    from pylatexenc.latex2text import LatexNodes2Text
    for o in OPTS:
        r = ref.Ref(strict_latex_spaces=o[0], math_mode=o[1], keep_braced_groups=o[2])
        try:
            exp = r.nodes(res[1])
        except ref.Unsupported:
            acc.count('unsupported')
            return
        conv = LatexNodes2Text(strict_latex_spaces=o[0], math_mode=o[1], keep_braced_groups=o[2])
        st2, got = run_guarded(conv.latex_to_text, text, tolerant_parsing=False)
        acc.count('renderings')
        case = dict(s=text, opt=list(map(str, o)))
        if st2 != 'ok':
            acc.violation(ID, sub, case, dict(kind='latex_to_text-raises' if st2 == 'exc' else 'hang', exc=type(got).__name__ if st2 == 'exc' else None))
            return
        if got != exp:
            acc.violation(ID, sub, case, dict(kind='text-differs-from-documented-rules', how=_how(got, exp), policy=str(o[0]), math_mode=o[1]),
                          observed=repr(got), expected=repr(exp))
            return


def _how(got, exp):
    if ''.join(got.split()) == ''.join(exp.split()):
        return 'whitespace'
    return 'content'


_BLOCKS = None


def blocks():
    """Self-contained blocks: derivations of size <= 2 whose first and last element are text."""
    global _BLOCKS
    if _BLOCKS is None:
        g = docgen.Grammar('C', cmax=0)
        out = []
        for n in (1, 2, 3):
            for items in g.lists(n, False, False):
                if items and items[0][0] == 'T' and items[-1][0] == 'T':
                    d = docgen.render(items, 'C')
                    if d.valid and '\n\n' not in d.text:
                        out.append(d.text)
        _BLOCKS = sorted(set(out))
    return _BLOCKS


def check_compose(k, acc):
    B = blocks()
    for i, a in enumerate(B):
        if i % 16 != k:
            continue
        for b in B:
            for sep in ('\n\n', ' '):
                acc.count('evaluations')
                acc.count('nontrivial')
                acc.count('compositions')
                for o in OPTS[::3]:
                    l = l2t_obj(o)
                    st, res = run_guarded(lambda: (l.latex_to_text(a + sep + b, tolerant_parsing=False),
                                                   l.latex_to_text(a, tolerant_parsing=False) + sep + l.latex_to_text(b, tolerant_parsing=False)))
                    if st != 'ok' or res[0] != res[1]:
                        acc.violation(ID, 'compose', dict(a=a, b=b, sep=sep, opt=list(map(str, o))),
                                      dict(kind='not-compositional', sep=repr(sep)), observed=repr(res)[:400])
                        break


def iter_adjacency(k):
    """Bare macro + whitespace + one construct + text, at top level and inside every formula form: the
    adjacency the 'post-space of a bare macro' rule is about (size-3 documents with one forced deviation)."""
    g = docgen.Grammar('C', cmax=0)
    middles = [()] + [(it,) for it in g.items(1, False, False, False, False)]
    idx = 0
    for sym in docgen.SIGS['C']['syms']:
        for mid in middles:
            for tail in ((('T', 'a'),), ()):
                inner = (('Sym', sym),) + mid + tail
                for wrap in (None, '$', '\\(', '$$', '\\[', 'G'):
                    if wrap is not None and any(x[0] in ('Math', 'Par', 'Env') for x in mid):
                        continue
                    items = inner if wrap is None else ((('G', inner),) if wrap == 'G' else (('Math', wrap, inner),))
                    idx += 1
                    if idx % 8 != k:
                        continue
                    base = docgen.render(items, 'C')
                    # boundaries: find the one right after the symbol (first 'list' boundary after the first token)
                    for b in range(base.nb):
                        for dev in (' ', '\n'):
                            d = docgen.render(items, 'C', {b: dev})
                            if d.valid:
                                yield d


# ---- one converter object used for several documents (call histories)

HIST_DOCS = ['$a \\textbf{b $c$} d$ e', '\\[a \\textbf{$b$} c\\] d', '\\begin{equation}a\\textbf{b $c$}d\\end{equation} e',
             '{x} {y} \\alpha z', '\\alpha a \\o{} b \\ss', 'a %c\n b', '\\begin{itemize}\\item a\\item[b] c\\end{itemize}',
             "\\'e \\~{n}", "a~b---c``d''", '\\frac{a}{b} \\sqrt[3]{x}', '$a$ {b} $$c \\alpha d$$', '\\emph{a} \\textbf{b}\\\\ c',
             '\\hspace{a} \\label{b}c', '$a \\textbf{$b$}$']


def check_history(hist, acc, sub='hist'):
    """hist: indices into HIST_DOCS converted one after another by ONE converter per option set; every result must be
    what the documented rules give for that document alone."""
    from pylatexenc.latex2text import LatexNodes2Text
    acc.count('evaluations')
    acc.count('nontrivial')
    acc.count('histories')
    parsed = []
    for i in hist:
        st, res = run_guarded(contexts.parse, HIST_DOCS[i], 'C', False)
        if st != 'ok':
            acc.count('not_parsed')
            return
        parsed.append(res[1])
    for o in OPTS:
        conv = LatexNodes2Text(strict_latex_spaces=o[0], math_mode=o[1], keep_braced_groups=o[2])
        r = ref.Ref(strict_latex_spaces=o[0], math_mode=o[1], keep_braced_groups=o[2])
        for step, i in enumerate(hist):
            try:
                exp = r.nodes(parsed[step])
            except ref.Unsupported:
                acc.count('unsupported')
                return
            if step % 2 == 0:
                st, got = run_guarded(conv.latex_to_text, HIST_DOCS[i], tolerant_parsing=False)
            else:
                st, got = run_guarded(conv.nodelist_to_text, parsed[step])
            acc.count('renderings')
            case = dict(history=list(hist), step=step, s=HIST_DOCS[i], opt=list(map(str, o)))
            if st != 'ok':
                acc.violation(ID, sub, case, dict(kind='latex_to_text-raises' if st == 'exc' else 'hang', exc=type(got).__name__ if st == 'exc' else None,
                                                  after_earlier_calls=step > 0))
                break
            if got != exp:
                acc.violation(ID, sub, case, dict(kind='text-differs-from-documented-rules', how=_how(got, exp), policy=str(o[0]), math_mode=o[1],
                                                  after_earlier_calls=step > 0), observed=repr(got), expected=repr(exp))
                break


def iter_twice():
    """The same call / symbol / accent twice in one document with different texts (a rendering that remembers
    the first occurrence would show), at top level, in a group and in each formula form."""
    g = docgen.Grammar('C', cmax=1)
    singles = [it for it in g.items(1, False, False, False, False) if it[0] in ('Call', 'Acc', 'Sym') and 'tok' in repr(it)]
    singles += [it for it in g.items(2, False, False, False, False) if it[0] in ('Call', 'Env') and "'T'" in repr(it)]
    for it in singles:
        for sep in ((), (('T', 'a'),), (('Par',),)):
            inner = relabel((it,) + sep + (it,))
            for wrap in (None, '$', 'G'):
                if wrap in ('$', '$$') and (any(x[0] == 'Par' for x in sep) or it[0] == 'Env'):
                    continue
                items = inner if wrap is None else ((('G', inner),) if wrap == 'G' else (('Math', wrap, inner),))
                d = docgen.render(items, 'C')
                if d.valid:
                    yield d


def run_shard(shard, tier, acc):
    if shard[0] == 'hist':
        n = len(HIST_DOCS)
        first = shard[1]
        check_history((first,), acc)
        for j in range(n):
            check_history((first, j), acc)
            # the two documents as one document, joined by a paragraph break
            d2 = HIST_DOCS[first] + '\n\n' + HIST_DOCS[j]
            check_text(d2, acc)
            if tier == 'thorough':
                for k in range(n):
                    check_history((first, j, k), acc)
        return
    if shard[0] == 'adj':
        for doc in iter_adjacency(shard[1]):
            check_doc(doc, acc, 'adj')
        if shard[1] == 0:
            for doc in iter_twice():
                check_doc(doc, acc, 'twice', fresh=True)
        return
    if shard[0] == 'docs':
        for doc in iter_docs(tier, shard[1]):
            check_doc(doc, acc)
            acc.sample(dict(s=doc.text))
    else:
        check_compose(shard[1], acc)


def replay(sub, case):
    acc = engine.Acc()
    if sub == 'hist':
        check_history(tuple(case['history']), acc)
        acc.violations = [v for v in acc.violations if v['case'].get('opt') == case.get('opt')]
        return acc.violations
    if sub == 'histdoc':
        check_text(case['s'], acc)
        return acc.violations
    if sub == 'compose':
        l = l2t_obj(next(o for o in OPTS if list(map(str, o)) == case['opt']))
        a, b, sep = case['a'], case['b'], case['sep']
        x = l.latex_to_text(a + sep + b, tolerant_parsing=False)
        y = l.latex_to_text(a, tolerant_parsing=False) + sep + l.latex_to_text(b, tolerant_parsing=False)
        if x != y:
            acc.violation(ID, 'compose', case, dict(kind='not-compositional', sep=repr(sep)), observed=repr((x, y)))
        return acc.violations
    items = eval(case['items'], {'__builtins__': {}}, {})
    devs = {int(k): v for k, v in case.get('devs', {}).items()}
    doc = docgen.render(items, 'C', devs)
    check_doc(doc, acc, sub, fresh=(sub == 'twice'))
    return acc.violations


def finish(tier, merged, plan):
    errs = []
    c = merged.counts
    if c['renderings'] < 500000 or c['compositions'] < 1000:
        errs.append('sanity floor: renderings=%d compositions=%d' % (c['renderings'], c['compositions']))
    if c['unsupported'] or c['not_parsed']:
        errs.append('generated core documents outside the reference (%d) or not parsed (%d)' % (c['unsupported'], c['not_parsed']))
    return errs
