# -*- coding: utf-8 -*-
"""C18 - node-list splitting and key-value parsing are order-preserving partitions.

BE: node lists = the strict parse of every word of length <= N over
{a b , = space { } %c\\n \\x $} that parses (plus the same lists with one None entry);
x separator kind (string, two-character string, compiled regex, callable) x keep_empty x
max_split x skip_none; split_at_node / filter with predicates; parse_keyval_content with
every repeated-key policy and both extract_value_group_contents.
Oracle: an independent reference split computed from the top-level nodes (separators are
searched in top-level chars nodes only): parts and node positions must agree; keep_empty
only removes empty parts; max_split=n performs the first n splits of the unlimited split;
key-value parsing equals the composition of the two (checked) splits plus the named policy.
"""
import re
import itertools

from mc import engine, words, contexts, canon
from mc.engine import run_guarded, exc_frame

ID = 'C18'
LEVEL = 'exploration'
TECHNIQUE = 'bounded-exhaustive parsed node lists x option combinations against a reference partition computed from the source'

ALPHA = ['a', 'b', ',', '=', ' ', '{', '}', '%c\n', '\\x', '$']
BOUNDS = {'quick': dict(N=5, NKV=6), 'thorough': dict(N=6, NKV=7)}


def _callable_sep(chars, pos):
    i = chars.find(',', pos)
    if i == -1:
        return None
    return (i, i + 1)


SEPS = [('comma', ','), ('comma-space', ', '), ('regex', re.compile(r',\s*')), ('callable', _callable_sep),
        ('equals', '=')]
MAXSPLITS = [None, 0, 1, 2, 3]


def find_seps(text, sep):
    """All separator occurrences (start, end) in a string, left to right, non-overlapping."""
    out = []
    pos = 0
    while pos <= len(text):
        if hasattr(sep, 'search'):
            m = sep.search(text, pos)
            if m is None or m.end() == m.start():
                break
            a, b = m.start(), m.end()
        elif callable(sep):
            r = sep(text, pos)
            if not r:
                break
            a, b = r
            if a is None or a < 0:
                break
        else:
            a = text.find(sep, pos)
            if a == -1:
                break
            b = a + len(sep)
        out.append((a, b))
        pos = b
    return out


def ref_split(nodes, sep, max_split, keep_empty, skip_none):
    """Reference partition.  Pieces are ('c', text, pos, pos_end) or ('n', id(node)) or ('none',)."""
    parts = [[]]
    nsplit = 0
    for n in nodes:
        if n is None:
            if not skip_none:
                parts[-1].append(('none',))
            continue
        if canon.kind_of(n) == 'chars':
            text = n.chars
            occ = find_seps(text, sep)
            cur = 0
            used_any = False
            for (a, b) in occ:
                if max_split is not None and nsplit >= max_split:
                    break
                if a > cur:
                    parts[-1].append(('c', text[cur:a], n.pos + cur, n.pos + a))
                parts.append([])
                nsplit += 1
                cur = b
                used_any = True
            if not used_any:
                parts[-1].append(('n', id(n)))
            elif cur < len(text):
                parts[-1].append(('c', text[cur:], n.pos + cur, n.pos + len(text)))
        else:
            parts[-1].append(('n', id(n)))
    if not keep_empty:
        parts = [p for p in parts if p]
    return parts


def obs_parts(result, orig_ids):
    out = []
    for nl in result:
        p = []
        for n in nl:
            if n is None:
                p.append(('none',))
            elif id(n) in orig_ids:
                p.append(('n', id(n)))
            elif canon.kind_of(n) == 'chars':
                p.append(('c', n.chars, n.pos, n.pos_end))
            else:
                p.append(('new-node', canon.kind_of(n)))
        out.append(p)
    return out


def describe(parts, names):
    return [[(x if x[0] != 'n' else ('n', names.get(x[1], '?'))) for x in p] for p in parts]


def _walker_of(nodes):
    for n in nodes:
        if n is not None and getattr(n, 'latex_walker', None) is not None:
            return n.latex_walker
    return None


def verbatim_mismatch(nl):
    """A derived list (part, filtered list, aggregated value) need not be one contiguous stretch of the source: its source text is
    the concatenation of the source text of its members, whatever span the list object reports."""
    try:
        got = nl.latex_verbatim()
        want = ''.join(n.latex_verbatim() for n in nl if n is not None)
    except Exception as e:
        return ('raises', type(e).__name__)
    return None if got == want else (got, want)


def check_lists(s, nodes, acc, sub='split'):
    """nodes: python list of top-level nodes (possibly with None)."""
    from pylatexenc.latexnodes.nodes import LatexNodeList
    names = {id(n): '%s@%s' % (canon.kind_of(n), n.pos) for n in nodes if n is not None}
    orig_ids = set(names)
    for (sname, sep) in SEPS:
        for keep_empty in (False, True):
            for max_split in MAXSPLITS:
                for skip_none in ((True, False) if any(n is None for n in nodes) else (True,)):
                    nl = LatexNodeList(list(nodes), latex_walker=(_walker_of(nodes) if keep_empty else None))
                    case = dict(s=s, sep=sname, keep_empty=keep_empty, max_split=max_split, skip_none=skip_none,
                                none_at=[i for i, n in enumerate(nodes) if n is None])
                    acc.count('evaluations')
                    st, res = run_guarded(nl.split_at_chars, sep, max_split=max_split, keep_empty=keep_empty, skip_none=skip_none)
                    if st != 'ok':
                        acc.violation(ID, sub, case, dict(kind='split-raises' if st == 'exc' else 'hang',
                                                          exc=type(res).__name__ if st == 'exc' else None,
                                                          frame=exc_frame(res) if st == 'exc' else None))
                        continue
                    got = obs_parts(res, orig_ids)
                    exp = ref_split(nodes, sep, max_split, keep_empty, skip_none)
                    if len(exp) > 1:
                        acc.count('nontrivial')
                    acc.outcome((sname, keep_empty, max_split, tuple(len(p) for p in got)))
                    if got != exp:
                        unlimited = (max_split is None)
                        kind = 'split-differs'
                        if not unlimited and obs_parts(nl.split_at_chars(sep, keep_empty=keep_empty, skip_none=skip_none), orig_ids) == \
                                ref_split(nodes, sep, None, keep_empty, skip_none):
                            kind = 'max_split-differs'
                        acc.violation(ID, sub, case, dict(kind=kind, keep_empty=keep_empty, sepkind=('string' if isinstance(sep, str) else sname)),
                                      observed=repr(describe(got, names))[:700], expected=repr(describe(exp, names))[:700])
                        continue
                    for nlr in (res if nl.latex_walker is not None else ()):   # pieces made by a list without walker have none either
                        mm = verbatim_mismatch(nlr)
                        if mm is not None:
                            acc.violation(ID, sub, case, dict(kind='part-source-text-wrong'), observed=repr(mm[0])[:200], expected=repr(mm[1])[:200])
                            break
                    # list spans of non-empty parts
                    for nlr in res:
                        items = [x for x in nlr if x is not None]
                        if items and (nlr.pos != items[0].pos or nlr.pos_end != items[-1].pos_end):
                            acc.violation(ID, sub, case, dict(kind='part-span-wrong'),
                                          observed=repr((nlr.pos, nlr.pos_end)), expected=repr((items[0].pos, items[-1].pos_end)))
                            break


def check_node_split(s, nodes, acc, none_at=None):
    from pylatexenc.latexnodes.nodes import LatexNodeList
    preds = [('is-group', lambda n: canon.kind_of(n) == 'group'), ('is-macro', lambda n: canon.kind_of(n) == 'macro'),
             ('is-comma-chars', lambda n: canon.kind_of(n) == 'chars' and ',' in n.chars)]
    clean = [n for n in nodes if n is not None]
    for (pname, pred) in preds:
        for keep_sep in (False, True):
            for max_split in (None, 0, 1, 2):
                nl = LatexNodeList(list(nodes), latex_walker=None)
                case = dict(s=s, pred=pname, keep_separators=keep_sep, max_split=max_split, none_at=none_at)
                acc.count('evaluations')
                st, res = run_guarded(nl.split_at_node, pred, keep_separators=keep_sep, max_split=max_split)
                if st != 'ok':
                    acc.violation(ID, 'nodesplit', case, dict(kind='split_at_node-raises', exc=type(res).__name__ if st == 'exc' else st))
                    continue
                exp = [[]]
                ns = 0
                for n in clean:
                    if pred(n) and (max_split is None or ns < max_split):
                        exp.append([id(n)] if keep_sep else [])
                        ns += 1
                    else:
                        exp[-1].append(id(n))
                got = [[id(n) for n in part] for part in res]
                if got != exp:
                    acc.violation(ID, 'nodesplit', case, dict(kind='split_at_node-differs', max_split=(max_split is not None)),
                                  observed=repr([[('n',) for _ in p] for p in got]), expected=repr([[('n',) for _ in p] for p in exp]))
    # filter
    for kw in (dict(), dict(skip_comments=True), dict(skip_whitespace_char_nodes=True), dict(skip_none=False),
               dict(node_predicate_fn=lambda n: canon.kind_of(n) != 'group')):
        nl = LatexNodeList(list(nodes), latex_walker=_walker_of(nodes))
        acc.count('evaluations')
        st, res = run_guarded(nl.filter, **kw)
        if st != 'ok':
            if kw.get('skip_none') is False and any(n is None for n in nodes):
                continue      # predicates are not defined on None entries
            acc.violation(ID, 'filter', dict(s=s, kw=sorted(kw)), dict(kind='filter-raises', exc=type(res).__name__ if st == 'exc' else st))
            continue
        exp = []
        for n in nodes:
            if n is None:
                if kw.get('skip_none', True):
                    continue
                exp.append(None)
                continue
            if kw.get('skip_comments') and canon.kind_of(n) == 'comment':
                continue
            if kw.get('skip_whitespace_char_nodes') and canon.kind_of(n) == 'chars' and n.chars.strip() == '':
                continue
            if kw.get('node_predicate_fn') and not kw['node_predicate_fn'](n):
                continue
            exp.append(id(n))
        got = [None if n is None else id(n) for n in res]
        if got != exp:
            acc.violation(ID, 'filter', dict(s=s, kw=sorted(kw)), dict(kind='filter-differs', kw=sorted(kw)))
        elif hasattr(res, 'latex_verbatim') and not any(n is None for n in res):
            mm = verbatim_mismatch(res)
            if mm is not None:
                acc.violation(ID, 'filter', dict(s=s, kw=sorted(kw)), dict(kind='filtered-list-source-text-wrong', kw=sorted(kw)),
                              observed=repr(mm[0])[:200], expected=repr(mm[1])[:200])


POLICIES = ['concatenate', 'first', 'last', 'error']


def _seq(x):
    from pylatexenc.latexnodes.nodes import LatexNodeList
    if x is None:
        return None
    if isinstance(x, LatexNodeList):
        return [y for y in x.nodelist]
    if isinstance(x, list):
        return x
    return [x]


def _desc_nodes(seq):
    if seq is None:
        return None
    out = []
    for n in seq:
        if n is None:
            out.append(None)
        elif canon.kind_of(n) == 'chars':
            out.append(('c', n.chars, n.pos, n.pos_end))
        else:
            out.append((canon.kind_of(n), n.pos, n.pos_end))
    return out


def check_keyval(s, nodelist, acc):
    """parse_keyval_content == split at commas, each part at its first '=', policy applied (compositional oracle)."""
    for policy in POLICIES:
        for extract in (True, False):
            case = dict(s=s, policy=policy, extract=extract)
            acc.count('evaluations')
            st, res = run_guarded(nodelist.parse_keyval_content, repeated_key_aggregate_action=policy,
                                  extract_value_group_contents=extract)
            # expected, from the (separately checked) splits
            exp = {}
            order = []
            exp_err = None
            try:
                for part in nodelist.split_at_chars(','):
                    kv = part.split_at_chars('=', max_split=1)
                    if not kv:
                        continue
                    key = kv[0].get_content_as_chars()
                    val = None
                    if len(kv) == 2:
                        val = _seq(kv[1])
                        if extract and len(val) == 1 and canon.kind_of(val[0]) == 'group':
                            val = _seq(val[0].nodelist)
                    else:
                        val = [None]
                    if key in exp:
                        if policy == 'error':
                            raise ValueError('repeated')
                        elif policy == 'first':
                            val = exp[key]
                        elif policy == 'concatenate':
                            val = exp[key] + val
                    else:
                        order.append(key)
                    exp[key] = val
            except ValueError:
                exp_err = 'ValueError'
            except Exception as e:
                exp_err = type(e).__name__
            if st == 'timeout':
                acc.violation(ID, 'keyval', case, dict(kind='hang'))
                continue
            if st == 'exc':
                if exp_err == type(res).__name__:
                    acc.count('keyval_errors_agree')
                    continue
                acc.violation(ID, 'keyval', case, dict(kind='keyval-raises', exc=type(res).__name__, frame=exc_frame(res), policy=policy),
                              observed=repr(res)[:200], expected=repr(exp_err))
                continue
            if exp_err is not None:
                acc.violation(ID, 'keyval', case, dict(kind='keyval-should-raise', policy=policy), observed=repr(sorted(res)))
                continue
            got = {k: _desc_nodes(_seq(v)) for k, v in res.items()}
            want = {k: _desc_nodes(v) for k, v in exp.items()}
            if len(want) >= 1:
                acc.count('nontrivial')
            acc.outcome(('kv', tuple(sorted(got))))
            if got != want or list(res.keys()) != order:
                acc.violation(ID, 'keyval', case, dict(kind='keyval-differs-from-composition', policy=policy, extract=extract),
                              observed=repr(got)[:600], expected=repr(want)[:600])
                continue
            for k, v in res.items():
                if hasattr(v, 'latex_verbatim') and hasattr(v, 'nodelist') and not any(n is None for n in v):
                    mm = verbatim_mismatch(v)
                    if mm is not None:
                        acc.violation(ID, 'keyval', case, dict(kind='keyval-value-source-text-wrong', policy=policy),
                                      observed=repr(mm[0])[:200], expected=repr(mm[1])[:200])
                        break


KV_ALPHA = ['a=', 'b=', ',', '{b}', 'a', 'b', '{}', ' ']


def check_keyval_purity(s, acc):
    """parse_keyval_content must not modify the node list it is called on (nor the caller's default value list):
    calling it again, and calling it after another policy, gives the same answer on an unchanged tree."""
    from pylatexenc.latexnodes.nodes import LatexNodeList, LatexCharsNode
    st, res = run_guarded(contexts.parse, s, 'D', False)
    if st != 'ok':
        return
    nodelist = res[1]
    before = canon.canon_node(nodelist)
    check_keyval(s, nodelist, acc)
    for policy in POLICIES:
        for use_default in (False, True):
            kw = {}
            dflt = None
            if use_default:
                dflt = LatexNodeList([LatexCharsNode(chars='D', pos=None, pos_end=None)])
                kw['default_value_nodelist'] = dflt
            acc.count('evaluations')
            results = []
            for rep in range(3):
                stp, r = run_guarded(nodelist.parse_keyval_content, repeated_key_aggregate_action=policy, **kw)
                if stp == 'ok':
                    results.append({k: _desc_nodes(_seq(v)) for k, v in r.items()})
                else:
                    results.append(('raised', type(r).__name__))
            case = dict(s=s, policy=policy, default=use_default)
            if canon.canon_node(nodelist) != before:
                acc.violation(ID, 'kvpure', case, dict(kind='keyval-parsing-modified-the-node-list', policy=policy),
                              observed=repr(canon.canon_node(nodelist))[:500], expected=repr(before)[:500])
                return
            if dflt is not None and [getattr(n, 'chars', None) for n in dflt.nodelist] != ['D']:
                acc.violation(ID, 'kvpure', case, dict(kind='keyval-parsing-modified-the-default-value-list', policy=policy),
                              observed=repr([getattr(n, 'chars', None) for n in dflt.nodelist]))
                return
            if results[0] != results[1] or results[1] != results[2]:
                acc.violation(ID, 'kvpure', case, dict(kind='keyval-result-changes-when-repeated', policy=policy),
                              observed=repr(results[1])[:400], expected=repr(results[0])[:400])
                return


def plan(tier):
    b = BOUNDS[tier]
    shards = [('w', sh) for sh in words.prefix_shards(ALPHA, b['N'], 2)]
    shards += [('kv', sh) for sh in words.prefix_shards(KV_ALPHA, b['NKV'] - 1, 1)]
    return dict(
        shards=shards, bounds=dict(b, alphabet=ALPHA, separators=[x[0] for x in SEPS], max_split=MAXSPLITS),
        rule=('node lists = strict parse (default context) of every word of length <= N over 10 lexemes that parses, and the same list with '
              'one None entry inserted at each position (lists of <= 3 nodes); x 5 separator kinds x keep_empty x max_split in {None,0,1,2,3} x '
              'skip_none; split_at_node (3 predicates x keep_separators x max_split), filter (5 option sets); parse_keyval_content (4 policies x '
              'extract on/off); key-value purity (tree, default list and repeated result unchanged) on every word of length <= NKV-1 over 8 key-value lexemes.  non-trivial = splits with more than one expected part.'),
        assumptions=['separators are looked for inside top-level chars nodes only, one chars node at a time (reference mc/checks/c18.py:ref_split)',
                     'key-value oracle is the composition of the library\'s own splits (checked above) with the named repeated-key policy'],
    )


def run_shard(shard, tier, acc):
    b = BOUNDS[tier]
    if shard[0] == 'kv':
        for w in words.iter_shard(KV_ALPHA, b['NKV'] - 1, shard[1]):
            check_keyval_purity(words.render(KV_ALPHA, w), acc)
        return
    for w in words.iter_shard(ALPHA, b['N'], shard[1]):
        s = words.render(ALPHA, w)
        st, res = run_guarded(contexts.parse, s, 'D', False)
        if st != 'ok':
            acc.count('unparsed')
            continue
        nodelist = res[1]
        nodes = list(nodelist.nodelist)
        acc.count('lists')
        check_lists(s, nodes, acc)
        check_node_split(s, nodes, acc)
        check_keyval(s, nodelist, acc)
        if 1 <= len(nodes) <= 3:
            for i in range(len(nodes) + 1):
                withnone = nodes[:i] + [None] + nodes[i:]
                check_lists(s, withnone, acc, sub='split-none')
                check_node_split(s, withnone, acc, none_at=i)
        acc.sample(dict(s=s))


def replay(sub, case):
    acc = engine.Acc()
    lw, nodelist = contexts.parse(case['s'], 'D', False)
    nodes = list(nodelist.nodelist)
    if sub in ('split', 'split-none'):
        for i in case.get('none_at', []):
            nodes = nodes[:i] + [None] + nodes[i:]
        check_lists(case['s'], nodes, acc, sub)
        acc.violations = [v for v in acc.violations if all(v['case'].get(k) == case.get(k) for k in ('sep', 'keep_empty', 'max_split', 'skip_none'))]
    elif sub == 'kvpure':
        check_keyval_purity(case['s'], acc)
    elif sub in ('nodesplit', 'filter'):
        if case.get('none_at') is not None:
            i = case['none_at']
            nodes = nodes[:i] + [None] + nodes[i:]
        check_node_split(case['s'], nodes, acc, none_at=case.get('none_at'))
    else:
        check_keyval(case['s'], nodelist, acc)
    return acc.violations


def finish(tier, merged, plan):
    errs = []
    c = merged.counts
    if c['lists'] < 5000 or c['nontrivial'] < 50000:
        errs.append('sanity floor: lists=%d nontrivial=%d' % (c['lists'], c['nontrivial']))
    return errs
