# -*- coding: utf-8 -*-
"""C02 - parsing recovers the structure a well-formed document was written with.

DD: every derivation of the document grammar up to the size bound, rendered in default
concrete syntax and with every placement of at most d whitespace/comment deviations; the
strict parse must have exactly the structure the generator wrote (whitespace-insensitive
skeleton: nesting, kinds, names, delimiters, per-slot argument or absent).
"""
from mc import engine, contexts, docgen
from mc.engine import run_guarded, exc_frame

ID = 'C02'
LEVEL = 'exploration'
TECHNIQUE = 'exhaustive derivations of a document grammar with bounded deviations; expected structure known by construction'


def plan(tier):
    return dict(
        shards=docgen.shards(tier),
        bounds=dict(profiles=docgen.PROFILES[tier], deviations=docgen.DEVIATIONS),
        rule=(docgen.describe(tier) + '.  Each rendering is parsed with tolerant_parsing=False and its '
              'whitespace-insensitive skeleton compared with the derivation.  non-trivial = renderings '
              'containing at least one call, environment, group or formula; renderings are distinct by construction.'),
        assumptions=['whitespace attribution itself (which node owns which blank) is decided by C01 and C03; here chars are compared with whitespace removed',
                     'renderings that LaTeX itself reads differently (paragraph break in an argument gap, fused specials, comment before an optional argument) are not generated'],
    )


def first_diff(a, b, path=()):
    if a == b:
        return None
    if isinstance(a, tuple) and isinstance(b, tuple) and len(a) == len(b):
        for i, (x, y) in enumerate(zip(a, b)):
            d = first_diff(x, y, path + (i,))
            if d is not None:
                return d
    return (path, a, b)


def diff_kind(exp, got):
    """Small classification of the first difference - identifies a defect, not an input."""
    d = first_diff(exp, got)
    if d is None:
        return 'none'
    path, a, b = d
    def k(x):
        if x is None:
            return 'absent'
        if isinstance(x, tuple) and x and isinstance(x[0], str):
            return x[0] + (':' + str(x[1]) if x[0] in ('M', 'E', 'S', 'g', 'm') else '')
        if isinstance(x, tuple):
            return 'list%d' % len(x)
        return type(x).__name__
    return '%s->%s' % (k(a), k(b))


def check_doc(doc, acc):
    from pylatexenc.latexwalker import LatexWalkerParseError
    case = dict(ctx=doc.ctx, s=doc.text, items=repr(doc.items), devs={str(k): v for k, v in doc.devs.items()})
    acc.count('evaluations')
    acc.count('devs_%d' % len(doc.devs))
    st, res = run_guarded(contexts.parse, doc.text, doc.ctx, False)
    expect_error = (doc.ctx == 'A0' and doc.uses_unknown)
    if expect_error:
        acc.count('expect_unknown_macro_error')
        if st == 'exc' and isinstance(res, LatexWalkerParseError):
            acc.count('nontrivial')
            return
        acc.violation(ID, 'dd', case, dict(kind='unknown-macro-accepted-without-fallback'),
                      observed=st)
        return
    if st == 'timeout':
        acc.violation(ID, 'dd', case, dict(kind='hang'))
        return
    cause = 'bracket-in-braces-inside-nested-bracket-pair' if docgen.bracket_under_nested_pair(doc.items) else None
    if st == 'exc':
        e = res
        what = (getattr(e, 'error_type_info', None) or {}).get('what') if isinstance(e, LatexWalkerParseError) else None
        acc.violation(ID, 'dd', case, dict(kind='well-formed-document-rejected', exc=type(e).__name__, what=what,
                                           frame=exc_frame(e), cause=cause),
                      observed=str(e)[:300])
        return
    lw, nodes = res
    got = docgen.strip_modes(docgen.skel_of_tree(nodes))
    exp = docgen.strip_modes(doc.skel)
    acc.outcome(got)
    if any(e[0] != 'c' for e in exp):
        acc.count('nontrivial')
    for e in exp:
        acc.count('top_' + e[0])
    if got != exp:
        acc.violation(ID, 'dd', case, dict(kind='structure-differs', diff=diff_kind(exp, got), ctx=doc.ctx, cause=cause),
                      observed=repr(got)[:800], expected=repr(exp)[:800])


def run_shard(shard, tier, acc):
    for doc in docgen.iter_shard(tier, shard):
        check_doc(doc, acc)
        acc.sample(dict(ctx=doc.ctx, s=doc.text))


def replay(sub, case):
    acc = engine.Acc()
    items = eval(case['items'], {'__builtins__': {}}, {})
    devs = {int(k): v for k, v in case.get('devs', {}).items()}
    doc = docgen.render(items, case['ctx'], devs)
    assert doc.text == case['s'], (doc.text, case['s'])
    check_doc(doc, acc)
    return acc.violations


def finish(tier, merged, plan):
    errs = []
    c = merged.counts
    for k in ('top_c', 'top_M', 'top_E', 'top_g', 'top_m', 'top_S', 'top_%'):
        if c[k] < 50:
            errs.append('sanity floor: %s seen %d times' % (k, c[k]))
    if tier == 'quick' and c['devs_1'] < 1000:
        errs.append('sanity floor: deviated renderings %d' % c['devs_1'])
    return errs
