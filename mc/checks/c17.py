# -*- coding: utf-8 -*-
"""C17 - a derived parsing state behaves exactly like a freshly built one.

ES: states reached from 3 roots by chains of sub_context(**delta) calls, delta from a menu of
single- and two-field changes.  Canonical key = public fields + the cached lookup tables (a
child inherits nothing else from its parent, so equal keys have equal futures).  In every
state d, against f = ParsingState(**d.get_fields()): cached tables equal, token sequences of
the real LatexTokenReader equal on every short word over an alphabet containing every
configured delimiter; the parent's fields and tables are unchanged by sub_context().
"""
import itertools
import collections

from mc import engine, canon, words
from mc.engine import run_guarded, exc_frame

ID = 'C17'
LEVEL = 'model_checking'
TECHNIQUE = 'explicit-state search over chains of sub_context() on real ParsingState objects, differential against freshly constructed states'

BOUNDS = {'quick': dict(chain=3, W=2, Wnew=2), 'thorough': dict(chain=4, W=2, Wnew=3)}

ALPHA = ['a', ' ', '{', '}', '[', ']', '<', '>', '$', '!', '\\', '@', '%', '#', '(', ')', '~']

G2 = [('{', '}'), ('[', ']')]
G3 = [('{', '}'), ('<', '>')]
DELTAS = [
    dict(in_math_mode=True, math_mode_delimiter='$'),
    dict(in_math_mode=True, math_mode_delimiter='$$'),
    dict(in_math_mode=True, math_mode_delimiter='\\('),
    dict(in_math_mode=True, math_mode_delimiter='\\['),
    dict(in_math_mode=True, math_mode_delimiter=None),
    dict(in_math_mode=False, math_mode_delimiter=None),
    dict(in_math_mode=True), dict(in_math_mode=False),
    dict(math_mode_delimiter='$'),
    dict(latex_group_delimiters=G2),
    dict(latex_group_delimiters=G3),
    dict(latex_group_delimiters=[('{', '}')]),
    dict(latex_inline_math_delimiters=[('$', '$')]),
    dict(latex_inline_math_delimiters=[('$', '!')]),
    dict(latex_inline_math_delimiters=[('$', '$'), ('\\(', '\\)')]),
    dict(latex_display_math_delimiters=[('$$', '$$')]),
    dict(latex_display_math_delimiters=[('!!', '!!'), ('\\[', '\\]')]),
    dict(enable_math=False), dict(enable_math=True),
    dict(enable_groups=False), dict(enable_macros=False), dict(enable_comments=False),
    dict(enable_environments=False), dict(enable_specials=False),
    dict(enable_double_newline_paragraphs=False),
    dict(macro_escape_char='@'), dict(comment_start='#'), dict(forbidden_characters='$'),
    dict(in_math_mode=True, math_mode_delimiter='$', latex_inline_math_delimiters=[('$', '!')]),
    dict(in_math_mode=True, math_mode_delimiter='(', latex_inline_math_delimiters=[('(', ')')]),
    dict(),
    # everything switched off in one step, then single switches back on (a derived "nothing enabled" shortcut must be undone)
    dict(enable_macros=False, enable_environments=False, enable_comments=False, enable_groups=False, enable_specials=False, enable_math=False),
    dict(enable_specials=True), dict(enable_macros=True), dict(enable_groups=True),
    # a delimiter pair moved from one list to the other (the concatenation of the two lists stays the same)
    dict(latex_inline_math_delimiters=[('$', '$'), ('$$', '$$')], latex_display_math_delimiters=[]),
    dict(latex_inline_math_delimiters=[], latex_display_math_delimiters=[('$', '$'), ('$$', '$$')]),
    # forbidden characters changed again / cleared (after the parent has worked with the old set)
    dict(forbidden_characters='a%'), dict(forbidden_characters=''),
]


def roots():
    from pylatexenc.latexnodes import ParsingState
    from mc import contexts
    return [
        ('default', lambda: ParsingState()),
        ('math-$-ctxD', lambda: ParsingState(in_math_mode=True, math_mode_delimiter='$', latex_context=contexts.ctx_d())),
        ('brackets', lambda: ParsingState(latex_group_delimiters=list(G2), latex_inline_math_delimiters=[('$', '!')])),
    ]


USE_PROBE = 'a {[<$!\\x@y%#(~>]})\n\n$$!!\\(\\[ b'


def use_state(ps):
    """The 'use' operation of a history: tokenise (strictly and tolerantly) and parse with the state, so that
    anything a state builds lazily on first use exists before the next sub_context() call."""
    tokens_all(ps, USE_PROBE, False)
    tokens_all(ps, 'a $x$', True)


def build(root_i, chain, use=True):
    """Returns list of states along the chain (root first).  With use=True every state is used (tokenising,
    parsing) before the next state is derived from it - the history 'derive from a state that has worked'."""
    ps = roots()[root_i][1]()
    out = [ps]
    for di in chain:
        if use:
            use_state(ps)
        delta = {k: (list(v) if isinstance(v, list) else v) for k, v in DELTAS[di].items()}
        ps = ps.sub_context(**delta)
        out.append(ps)
    return out


def tokens_all(ps, s, tolerant):
    """Reads on after a token error (skipping one character), so that every position of the probe is visited."""
    from pylatexenc.latexnodes import LatexTokenReader, LatexWalkerEndOfStream
    tr = LatexTokenReader(s, tolerant_parsing=tolerant)
    for _ in range(2 * len(s) + 2):
        try:
            tr.next_token(parsing_state=ps)
        except LatexWalkerEndOfStream:
            break
        except Exception:
            p = tr.cur_pos() + 1
            if p > len(s):
                break
            tr.move_to_pos_chars(p)


def tokens(ps, s, tolerant=True):
    from pylatexenc.latexnodes import LatexTokenReader, LatexWalkerEndOfStream, LatexWalkerTokenParseError
    from mc.checks.c11 import canon_tok
    tr = LatexTokenReader(s, tolerant_parsing=tolerant)
    out = []
    for _ in range(len(s) + 2):
        try:
            t = tr.next_token(parsing_state=ps)
            out.append(canon_tok(t))
        except LatexWalkerEndOfStream as e:
            out.append(('eos', getattr(e, 'final_space', None)))
            break
        except Exception as e:
            out.append(('exc', type(e).__name__))
            break
    return tuple(out)


# documents for the "parses identically" half: every configured delimiter opens, closes, nests and is left open once
PARSE_DOCS = ['a', '{a}', '[a]', '<a>', '(a)', '$a$', '$a!', '$$a$$', '!!a!!', '\\(a\\)', '\\[a\\]', '{[a]}', '[{a}]', '{<a>}',
              '{$a$}', '$a', 'a$', 'a\\)', 'a!', '{a', 'a}', 'a]', 'a>', '\\a{b}', '\\a[b]{c}', '@a{b}', '\\textbf a', '%c\na', '#c\na',
              'a\n\nb', '~a', '\\begin{x}a\\end{x}', '@begin{x}a@end{x}', '{a$}$', '$a{$}', '\\sqrt[a]{b}', '\\frac a{b}$', 'a$b$$c$$']


def parse_with(ps, s, tolerant):
    from pylatexenc.latexwalker import LatexWalker
    from pylatexenc.latexnodes import LatexWalkerParseError
    from pylatexenc.latexnodes.parsers import LatexGeneralNodesParser
    lw = LatexWalker(s, latex_context=ps.latex_context, tolerant_parsing=tolerant)
    try:
        nodes, delta = lw.parse_content(LatexGeneralNodesParser(), parsing_state=ps)
    except LatexWalkerParseError as e:
        return ('parse-error', getattr(e, 'pos', None), str(getattr(e, 'msg', ''))[:80])
    except Exception as e:
        return ('exc', type(e).__name__)
    return ('ok', canon.canon_node(nodes), type(delta).__name__ if delta is not None else None)


_WORDS = {}


def wordlist(n):
    if n not in _WORDS:
        L = []
        for k in range(n + 1):
            for w in itertools.product(ALPHA, repeat=k):
                L.append(''.join(w))
        _WORDS[n] = L
    return _WORDS[n]


def check_state(root_i, chain, acc, seen_tables, b, seen=None):
    from pylatexenc.latexnodes import ParsingState
    case = dict(root=root_i, chain=list(chain))
    acc.count('evaluations')
    acc.count('transitions')
    st, states = run_guarded(build, root_i, chain)
    if st != 'ok':
        acc.violation(ID, 'es', case, dict(kind='sub_context-raises', exc=type(states).__name__ if st == 'exc' else st,
                                           frame=exc_frame(states) if st == 'exc' else None))
        return None
    acc.count('traces_validated_against_impl')
    d = states[-1]
    # the same chain derived from states that were never used must give an equal state
    st0, unused = run_guarded(build, root_i, chain, False)
    if st0 != 'ok' or canon.canon_parsing_state(unused[-1]) != canon.canon_parsing_state(d):
        acc.violation(ID, 'es', case, dict(kind='state-depends-on-use-of-parent-before-deriving'),
                      observed=repr(canon.canon_parsing_state(d))[:600],
                      expected=repr(canon.canon_parsing_state(unused[-1]) if st0 == 'ok' else st0)[:600])
    d0 = unused[-1] if st0 == 'ok' else None
    # parent unchanged by the last sub_context call: rebuild the parent independently and compare
    if len(states) >= 2:
        parent = states[-2]
        indep = build(root_i, chain[:-1], False)[-1]
        if canon.canon_parsing_state(parent) != canon.canon_parsing_state(indep):
            acc.violation(ID, 'es', case, dict(kind='sub_context-altered-its-parent', delta=sorted(DELTAS[chain[-1]].keys())),
                          observed=repr(canon.canon_parsing_state(parent))[:600], expected=repr(canon.canon_parsing_state(indep))[:600])
    # expected field values computed independently of the derived objects: apply the chain to a plain
    # dictionary, normalising through a directly constructed state at every step
    ef = roots()[root_i][1]().get_fields()
    for di in chain:
        ef.update({k: (list(v) if isinstance(v, list) else v) for k, v in DELTAS[di].items()})
        ef = ParsingState(**ef).get_fields()
    f = ParsingState(**ef)
    kd = canon.canon_parsing_state(d)
    if seen is not None and kd in seen:
        # an equal state (same fields, same tables) was already compared with its fresh twin
        return kd
    kf = canon.canon_parsing_state(f)
    bad_tables = None
    if kd[0] != kf[0]:
        acc.violation(ID, 'es', case, dict(kind='fields-differ-from-fresh'), observed=repr(kd[0])[:600], expected=repr(kf[0])[:600])
    if kd[1] != kf[1]:
        bad = [a[0] for a, b2 in zip(kd[1], kf[1]) if a != b2]
        bad_tables = bad
        acc.violation(ID, 'es', case, dict(kind='cached-table-differs-from-fresh', tables=bad,
                                           last_delta=sorted(DELTAS[chain[-1]].keys()) if chain else None),
                      observed=repr([a for a in kd[1] if a[0] in bad])[:600], expected=repr([a for a in kf[1] if a[0] in bad])[:600])
    new_tables = kd[1] not in seen_tables
    W = b['Wnew'] if (new_tables or bad_tables) else b['W']
    seen_tables.add(kd[1])
    bad = False
    for s in wordlist(W):
        for tol in (True, False):
            if not tol and len(s) > 1 and s[0] not in '\\@':
                continue   # strict and tolerant reading differ only where a token is malformed: single characters, escape sequences
            tf = tokens(f, s, tol)
            for which, dd in (('used-parents', d), ('unused-parents', d0)):
                if dd is None or (which == 'unused-parents' and len(s) > 1):
                    continue
                td = tokens(dd, s, tol)
                acc.count('token_comparisons')
                if td != tf:
                    acc.violation(ID, 'es', dict(case, s=s, tolerant=tol, history=which),
                                  dict(kind='tokens-differ-from-fresh', last_delta=sorted(DELTAS[chain[-1]].keys()) if chain else None),
                                  observed=repr(td)[:500], expected=repr(tf)[:500])
                    bad = True
                    break
            if bad:
                break
        if bad:
            break
    # ... and parses identically (strict and tolerant) - once per distinct state
    for s in PARSE_DOCS:
        pd = None
        for tol in (False, True):
            if tol and pd[0] == 'ok':
                continue   # tolerant = strict where strict succeeds (C06); tolerant recovery only where strict fails
            st1, pd = run_guarded(parse_with, d, s, tol)
            st2, pf = run_guarded(parse_with, f, s, tol)
            acc.count('parse_comparisons')
            if (st1, pd) != (st2, pf):
                acc.violation(ID, 'es', dict(case, s=s, tolerant=tol),
                              dict(kind='parse-differs-from-fresh', last_delta=sorted(DELTAS[chain[-1]].keys()) if chain else None),
                              observed=repr((st1, pd))[:500], expected=repr((st2, pf))[:500])
                return kd
    return kd


def explore(root_i, first, b, acc):
    seen = set()
    seen_tables = set()
    queue = collections.deque([(first,)] if first is not None else [()])
    while queue:
        chain = queue.popleft()
        nv = acc.counts['violating_cases']
        key = check_state(root_i, chain, acc, seen_tables, b, seen)
        if key is None or acc.counts['violating_cases'] != nv:
            continue
        if key in seen:
            acc.count('merged')
            continue
        seen.add(key)
        acc.count('states')
        if len(chain) >= 2:
            acc.count('nontrivial')
        acc.outcome(key)
        acc.sample(dict(root=roots()[root_i][0], chain=[DELTAS[i] for i in chain]), force=(len(chain) == 2 and chain[1] == 12))
        if len(chain) < b['chain']:
            for di in range(len(DELTAS)):
                queue.append(chain + (di,))


def plan(tier):
    b = BOUNDS[tier]
    shards = [(r, None) for r in range(3)] if False else [(r, d) for r in range(3) for d in range(len(DELTAS))]
    return dict(
        shards=shards, bounds=dict(b, deltas=len(DELTAS), roots=3, alphabet=ALPHA),
        rule=('all chains of <= %d sub_context() calls over %d field changes from 3 root states; states merged on '
              '(public fields, cached tables); in every state the derived object is compared with ParsingState(**get_fields()) on '
              'its cached tables and on the token sequences of all words of length <= %d (<= %d when the tables are new) over a '
              '17-symbol alphabet containing every configured delimiter, and on the strict and tolerant parse (LatexGeneralNodesParser started in that state) of a %d-document menu; the parent is compared with an independently rebuilt parent. Histories interleave a "use" operation (tokenise + parse with the state) before every sub_context(); the same chain over never-used states must give an equal state. Tokens are compared in tolerant and strict reading. '
              'states = distinct canonical states per shard; non-trivial = chains of length >= 2.' % (b['chain'], len(DELTAS), b['W'], b['Wnew'], len(PARSE_DOCS))),
        assumptions=['a child inherits only fields and the cached tables from its parent (key completeness)'],
    )


def run_shard(shard, tier, acc):
    explore(shard[0], shard[1], BOUNDS[tier], acc)


def replay(sub, case):
    acc = engine.Acc()
    b = dict(BOUNDS['quick'])
    check_state(case['root'], tuple(case['chain']), acc, set(), b)
    return acc.violations


def finish(tier, merged, plan):
    errs = []
    c = merged.counts
    if c['states'] < 300 or c['merged'] < 100:
        errs.append('sanity floor: states=%d merged=%d' % (c['states'], c['merged']))
    return errs
