# -*- coding: utf-8 -*-
"""C01 - node tree is a lossless, exactly positioned cover of the source.

BE: every word of the sweep spaces parsed strictly (full cover invariants on every
accepted tree) and tolerantly (range / nesting only); DD: documents of mc.docgen.
"""
from mc import engine, sweeps, contexts, cover, canon
from mc.engine import run_guarded, exc_frame

ID = 'C01'
LEVEL = 'exploration'
TECHNIQUE = 'bounded-exhaustive words + derivations with bounded deviations, structural invariants on every returned tree'

SPECS = {'quick': dict(R=5, L=3, A=3, Z=3, CR=4, E=3), 'thorough': dict(R=6, L=4, A=4, Z=4, CR=5, E=4)}


def plan(tier):
    spec = SPECS[tier]
    shards = [('be', sh) for sh in sweeps.shards(spec)]
    try:
        from mc import docgen
        shards += [('dd', sh) for sh in docgen.shards(tier)]
        ddrule = '; plus ' + docgen.describe(tier)
    except ImportError:
        ddrule = ''
    return dict(
        shards=shards, bounds=spec,
        rule=(sweeps.describe(spec) + ddrule + '.  Each word is parsed strictly (cover invariants on every accepted tree) '
              'and tolerantly (range/nesting of whatever is returned).  non-trivial = strictly accepted words whose tree '
              'has at least one non-chars node; words are distinct by construction.'),
        assumptions=['children may leave gaps inside a call node (skipped whitespace/comments before arguments belong to the parent)',
                     'group and math bodies must tile the span between their delimiters'],
    )


def check_input(s, ctx, acc, sub='be'):
    case = dict(s=s, ctx=ctx)
    acc.count('evaluations')
    st, res = run_guarded(contexts.parse, s, ctx, False)
    if st == 'ok':
        lw, nodes = res
        acc.count('strict_accepted')
        probs = cover.check_tree(s, nodes, strict=True)
        c = canon.canon_node(nodes, modes=False)
        acc.outcome(canon.shape(c))
        kinds = set(canon.kind_of(n) for n in canon.iter_nodes(nodes))
        for k in kinds:
            acc.count('kind_' + k)
        if kinds - {'chars'}:
            acc.count('nontrivial')
        for (kind, detail) in probs:
            acc.violation(ID, sub, case, dict(kind=kind, mode='strict'), observed=repr(detail))
    elif st == 'timeout':
        acc.count('strict_timeout')       # decided by C05
    else:
        acc.count('strict_rejected')
    if st == 'ok':
        return       # on strictly valid input the tolerant tree is the strict tree (C06 decides that)
    st, res = run_guarded(contexts.parse, s, ctx, True)
    if st == 'ok':
        lw, nodes = res
        if nodes is not None:
            acc.count('tolerant_trees')
            for (kind, detail) in cover.check_tree(s, nodes, strict=False):
                acc.violation(ID, sub, case, dict(kind=kind, mode='tolerant'), observed=repr(detail))
    else:
        acc.count('tolerant_failed')      # decided by C06


def run_shard(shard, tier, acc):
    sub, sh = shard
    if sub == 'be':
        for s, ctx in sweeps.iter_shard(SPECS[tier], sh):
            check_input(s, ctx, acc)
            acc.sample(dict(s=s, ctx=ctx))
    else:
        from mc import docgen
        for doc in docgen.iter_shard(tier, sh):
            check_input(doc.text, doc.ctx, acc, sub='dd')
            acc.sample(dict(s=doc.text, ctx=doc.ctx))


def replay(sub, case):
    acc = engine.Acc()
    check_input(case['s'], case['ctx'], acc, sub)
    return acc.violations


def finish(tier, merged, plan):
    errs = []
    c = merged.counts
    if c['strict_accepted'] < 0.2 * c['evaluations']:
        errs.append('sanity floor: only %d of %d words accepted' % (c['strict_accepted'], c['evaluations']))
    for k in ('chars', 'group', 'comment', 'macro', 'environment', 'specials', 'math'):
        if c['kind_' + k] < 20:
            errs.append('sanity floor: node kind %s seen in only %d trees' % (k, c['kind_' + k]))
    return errs
