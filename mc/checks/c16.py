# -*- coding: utf-8 -*-
r"""C16 - the pylatexenc-2 compatible API gives the same results as the new parsers.

BE: every word over a 14-lexeme alphabet (length <= N) at every lexeme boundary and every
word over the raw characters (length <= M) at every character position x every legacy call
variant (get_token, get_latex_nodes with each stop condition x read_max_nodes,
get_latex_expression x strict_braces, get_latex_braced_group x brace types,
get_latex_environment, get_latex_maybe_optional_arg) on strict and tolerant walkers.
Two formulations of the oracle: (literal) the pylatexenc-3 parser object named by the shim's
deprecation text, driven directly through parse_content(); (structural) stop-condition calls
started right after an opening delimiter must return the contents and the end of the
group / formula / environment node that the v3 parsers build at that delimiter.
Spec spellings: every argument string over {*, [, {} of length <= 4 through every legacy and
new spelling must give the same arguments, positions and legacy nodeoptarg / nodeargs views.
"""
import itertools

from mc import engine, words, canon, contexts
from mc.engine import run_guarded, exc_frame

ID = 'C16'
LEVEL = 'exploration'
TECHNIQUE = 'bounded-exhaustive words x start positions x legacy call variants, differential against the equivalent v3 parser objects (literal and structural formulation)'

LEX = ['a', ' ', '{', '}', '[', ']', '$', '\\)', '%c\n', '\\textbf', '\\\\', '\\item',
       '\\begin{itemize}', '\\end{itemize}']
BOUNDS = {'quick': dict(N=3, M=2, W=3), 'thorough': dict(N=4, M=4, W=4)}
SPEC_ALPHA = ['*', '[', ']', '{', '}', 'a', ' ']


# ---------------------------------------------------------------------------------------
# outcome capture

def outcome(fn):
    from pylatexenc.latexwalker import LatexWalkerParseError
    from pylatexenc.latexnodes import LatexWalkerEndOfStream
    st, res = run_guarded(fn)
    if st == 'ok':
        return ('ok', res)
    if st == 'timeout':
        return ('timeout', None)
    if isinstance(res, LatexWalkerParseError):
        return ('parse-error', type(res).__name__)
    if isinstance(res, LatexWalkerEndOfStream):
        return ('eos', None)
    return ('exception', type(res).__name__ + '@' + exc_frame(res))


def ctuple(t):
    if t is None:
        return None
    nodes, p, l = t
    return (canon.canon_node(nodes, modes=True), p, l)


# ---------------------------------------------------------------------------------------
# literal v3 equivalents (independent re-statement of what each shim is documented to do)

def v3_get_token(lw, pos, include_brace_chars=None, environments=True):
    from pylatexenc.latexnodes import LatexTokenReader
    ps = lw.make_parsing_state()
    kw = {}
    if include_brace_chars:
        kw['latex_group_delimiters'] = list(ps.latex_group_delimiters) + list(include_brace_chars)
    if environments is not None and environments != ps.enable_environments:
        kw['enable_environments'] = environments
    if kw:
        ps = ps.sub_context(**kw)
    tr = LatexTokenReader(lw.s, tolerant_parsing=lw.tolerant_parsing)
    tr.move_to_pos_chars(pos)
    return tr.peek_token(parsing_state=ps)


_OPEN_FOR = {'}': '{', ']': '[', ')': '(', '>': '<'}


def v3_get_latex_nodes(lw, pos, brace=None, env=None, math=None, maxn=None, parsing_state=None):
    from pylatexenc.latexnodes.parsers import LatexGeneralNodesParser
    ps = parsing_state if parsing_state is not None else lw.make_parsing_state()
    cl = None
    if brace is not None:
        if len(brace) == 2:
            op, cl = brace
        else:
            cl = brace
            op = _OPEN_FOR.get(cl)
        if (op, cl) not in [tuple(x) for x in ps.latex_group_delimiters]:
            ps = ps.sub_context(latex_group_delimiters=list(ps.latex_group_delimiters) + [(op, cl)])

    def stop_tok(t):
        if cl is not None and t.tok == 'brace_close' and t.arg == cl:
            return True
        if env is not None and t.tok == 'end_environment' and t.arg == env:
            return True
        if math is not None and t.tok in ('mathmode_inline', 'mathmode_display') and t.arg == math:
            return True
        return False

    def stop_nl(nl):
        return maxn is not None and len(nl) >= maxn

    def past(token, latex_walker, token_reader, parsing_state):
        token_reader.move_past_token(token)
    parser = LatexGeneralNodesParser(stop_token_condition=stop_tok, stop_nodelist_condition=stop_nl,
                                     require_stop_condition_met=(brace is not None or env is not None or math is not None),
                                     handle_stop_condition_token=past)
    tr = lw.make_token_reader(pos=pos)
    nodes, _ = lw.parse_content(parser, token_reader=tr, parsing_state=ps)
    if nodes is None:
        return (None, None, None)
    return (nodes, nodes.pos, tr.cur_pos() - nodes.pos)


def v3_get_latex_expression(lw, pos, strict_braces=None):
    from pylatexenc.latexnodes.parsers import LatexExpressionParser
    from pylatexenc.latexnodes import nodes as N
    from pylatexenc.latexwalker import LatexWalkerParseError
    ps = lw.make_parsing_state()
    parser = LatexExpressionParser(return_full_node_list=False,
                                   single_token_requiring_arg_is_error=not lw.tolerant_parsing,
                                   allow_pre_space=True, allow_pre_comments=True)
    try:
        node, _ = lw.parse_content(parser, token_reader=lw.make_token_reader(pos=pos), parsing_state=ps)
    except LatexWalkerParseError as e:
        # documented: with strict_braces false a closing brace where an expression is expected is not an error
        if getattr(e, '_error_was_unexpected_closing_brace_in_expression', False) and not strict_braces:
            node = None
        else:
            raise
    if node is not None and isinstance(node, (N.LatexMacroNode, N.LatexEnvironmentNode, N.LatexSpecialsNode)):
        node.nodeargd = None       # an expression is a single token: legacy callers parse the arguments themselves
    if node is None and (lw.tolerant_parsing or strict_braces is False):
        node = lw.make_node(N.LatexCharsNode, parsing_state=ps, chars='', pos=pos, pos_end=pos)
    if node is None:
        return (None, pos, 0)
    return (node, node.pos, node.pos_end - node.pos)


def v3_get_latex_braced_group(lw, pos, brace_type='{'):
    from pylatexenc.latexnodes.parsers import LatexDelimitedGroupParser
    pairs = {'{': ('{', '}'), '[': ('[', ']'), '(': ('(', ')'), '<': ('<', '>')}
    d = pairs[brace_type] if not isinstance(brace_type, (tuple, list)) else tuple(brace_type)
    node, _ = lw.parse_content(LatexDelimitedGroupParser(delimiters=d, allow_pre_space=True),
                               token_reader=lw.make_token_reader(pos=pos), parsing_state=lw.make_parsing_state())
    if node is None:
        return (None, pos, 0)
    return (node, node.pos, node.pos_end - node.pos)


def v3_get_latex_environment(lw, pos, environmentname=None):
    from pylatexenc.latexnodes.parsers import LatexSingleNodeParser
    from pylatexenc.latexnodes import nodes as N
    from pylatexenc.latexwalker import LatexWalkerParseError
    nl, _ = lw.parse_content(LatexSingleNodeParser(), token_reader=lw.make_token_reader(pos=pos),
                             parsing_state=lw.make_parsing_state())
    if not nl or len(nl) != 1 or not isinstance(nl[0], N.LatexEnvironmentNode):
        raise LatexWalkerParseError('expected environment')
    n = nl[0]
    if environmentname is not None and n.environmentname != environmentname:
        raise LatexWalkerParseError('wrong environment')
    return (n, n.pos, n.pos_end - n.pos)


def v3_get_latex_maybe_optional_arg(lw, pos):
    from pylatexenc.latexnodes.parsers import LatexOptionalSquareBracketsParser
    node, _ = lw.parse_content(LatexOptionalSquareBracketsParser(allow_pre_space=True), token_reader=lw.make_token_reader(pos=pos),
                               parsing_state=lw.make_parsing_state())
    if node is None:
        return None
    return (node, node.pos, node.pos_end - node.pos)


VARIANTS = []


def _variants():
    if VARIANTS:
        return VARIANTS
    V = VARIANTS
    for ibc in (None, [('[', ']')]):
        for env in (True, False):
            V.append(('get_token', dict(include_brace_chars=ibc, environments=env),
                      lambda lw, pos, ibc=ibc, env=env: lw.get_token(pos, include_brace_chars=ibc, environments=env),
                      lambda lw, pos, ibc=ibc, env=env: v3_get_token(lw, pos, ibc, env)))
    V.append(('get_token', dict(brackets_are_chars=False),
              lambda lw, pos: lw.get_token(pos, brackets_are_chars=False),
              lambda lw, pos: v3_get_token(lw, pos, [('[', ']')], True)))
    stops = [dict(), dict(brace='}'), dict(brace=']'), dict(brace=('<', '>')), dict(brace=('[', ']')), dict(brace='{}'), dict(env='itemize'), dict(math='$'), dict(math='\\)'),
             # several stop conditions in one call: whichever comes first stops the parse
             dict(brace='}', env='itemize'), dict(brace='}', math='$'), dict(env='itemize', math='$'), dict(brace=']', env='itemize', math='\\)'),
             # a caller-supplied math-mode state must survive the added group delimiters
             dict(brace=']', psmath='$'), dict(brace=('<', '>'), psmath='\\('), dict(brace='}', psmath='$')]
    for stp in stops:
        for maxn in (None, 1, 2):
            def leg(lw, pos, stp=stp, maxn=maxn):
                kw = {}
                ps = None
                if 'math' in stp:
                    ps = lw.make_parsing_state(in_math_mode=True, math_mode_delimiter={'$': '$', '\\)': '\\('}[stp['math']])
                if 'psmath' in stp:
                    ps = lw.make_parsing_state(in_math_mode=True, math_mode_delimiter=stp['psmath'])
                return lw.get_latex_nodes(pos, stop_upon_closing_brace=stp.get('brace'), stop_upon_end_environment=stp.get('env'),
                                          stop_upon_closing_mathmode=stp.get('math'), read_max_nodes=maxn, parsing_state=ps)

            def new(lw, pos, stp=stp, maxn=maxn):
                ps = None
                if 'math' in stp:
                    ps = lw.make_parsing_state(in_math_mode=True, math_mode_delimiter={'$': '$', '\\)': '\\('}[stp['math']])
                if 'psmath' in stp:
                    ps = lw.make_parsing_state(in_math_mode=True, math_mode_delimiter=stp['psmath'])
                return v3_get_latex_nodes(lw, pos, brace=stp.get('brace'), env=stp.get('env'), math=stp.get('math'), maxn=maxn, parsing_state=ps)
            V.append(('get_latex_nodes', dict(stop=repr(stp), read_max_nodes=maxn), leg, new))
    for sb in (None, False, True):
        V.append(('get_latex_expression', dict(strict_braces=sb),
                  lambda lw, pos, sb=sb: lw.get_latex_expression(pos, strict_braces=sb),
                  lambda lw, pos, sb=sb: v3_get_latex_expression(lw, pos, sb)))
    for bt in ('{', '[', '(', '<', ('<', '>')):
        V.append(('get_latex_braced_group', dict(brace_type=repr(bt)),
                  lambda lw, pos, bt=bt: lw.get_latex_braced_group(pos, brace_type=bt),
                  lambda lw, pos, bt=bt: v3_get_latex_braced_group(lw, pos, bt)))
    for en in (None, 'itemize', 'equation'):
        V.append(('get_latex_environment', dict(environmentname=en),
                  lambda lw, pos, en=en: lw.get_latex_environment(pos, environmentname=en),
                  lambda lw, pos, en=en: v3_get_latex_environment(lw, pos, en)))
    V.append(('get_latex_maybe_optional_arg', dict(),
              lambda lw, pos: lw.get_latex_maybe_optional_arg(pos),
              lambda lw, pos: v3_get_latex_maybe_optional_arg(lw, pos)))
    return V


def canon_result(name, r):
    if name == 'get_token':
        from mc.checks.c11 import canon_tok
        return canon_tok(r)
    if r is None:
        return None
    return ctuple(r)


def check_word(s, positions, acc):
    from pylatexenc.latexwalker import LatexWalker
    for tol in (False, True):
        for pos in positions:
            for vi, (name, opts, leg, new) in enumerate(_variants()):
                acc.count('evaluations')
                lw1 = LatexWalker(s, tolerant_parsing=tol)
                lw2 = LatexWalker(s, tolerant_parsing=tol)
                o1 = outcome(lambda: canon_result(name, leg(lw1, pos)))
                o2 = outcome(lambda: canon_result(name, new(lw2, pos)))
                case = dict(s=s, pos=pos, tolerant=tol, variant=vi, api=name, opts=opts)
                if o2[0] == 'ok' and o2[1] is not None:
                    acc.count('nontrivial')
                acc.outcome((name, o2[0], None if o2[0] != 'ok' else o2[1] is None))
                if o1[0] in ('exception', 'timeout'):
                    acc.violation(ID, 'shim', case, dict(kind='legacy-call-crashes', api=name, exc=o1[1]), observed=repr(o1))
                    continue
                if o1 != o2:
                    kind = 'legacy-differs-from-v3-parser'
                    if o1[0] != o2[0]:
                        kind = 'legacy-fails-differently-from-v3-parser'
                    acc.violation(ID, 'shim', case, dict(kind=kind, api=name, opts=sorted(k for k, v in opts.items() if v is not None)),
                                  observed=repr(o1)[:600], expected=repr(o2)[:600])
            check_structural(s, pos, tol, acc)
            check_token_sequence(s, pos, tol, acc)


def check_token_sequence(s, pos, tol, acc):
    """Several get_token() calls on ONE walker with the same options but different parsing states: each must equal
    the token of a fresh token reader under the equivalent state."""
    from pylatexenc.latexwalker import LatexWalker
    from pylatexenc.latexnodes import LatexTokenReader
    from mc.checks.c11 import canon_tok
    lw = LatexWalker(s, tolerant_parsing=tol)
    states = [None,
              lw.make_parsing_state(in_math_mode=True, math_mode_delimiter='$'),
              None,
              lw.make_parsing_state(enable_comments=False)]
    for opts in (dict(environments=False), dict(include_brace_chars=[('[', ']')])):
        for si, ps in enumerate(states):
            acc.count('evaluations')
            o1 = outcome(lambda: canon_tok(lw.get_token(pos, parsing_state=ps, **opts)))

            def fresh():
                base = ps if ps is not None else LatexWalker(s, tolerant_parsing=tol).make_parsing_state()
                kw = {}
                if opts.get('include_brace_chars'):
                    kw['latex_group_delimiters'] = list(base.latex_group_delimiters) + list(opts['include_brace_chars'])
                if 'environments' in opts and base.enable_environments != opts['environments']:
                    kw['enable_environments'] = opts['environments']
                st2 = base.sub_context(**kw) if kw else base
                tr = LatexTokenReader(s, tolerant_parsing=tol)
                tr.move_to_pos_chars(pos)
                return canon_tok(tr.peek_token(parsing_state=st2))
            o2 = outcome(fresh)
            if o1 != o2:
                acc.violation(ID, 'tokseq', dict(s=s, pos=pos, tolerant=tol, opts=sorted(opts), call=si),
                              dict(kind='get_token-depends-on-earlier-calls-or-differs', opts=sorted(opts)),
                              observed=repr(o1)[:300], expected=repr(o2)[:300])
                return


def check_structural(s, q, tol, acc):
    """Stop-condition calls started after an opening delimiter vs the node the v3 parser builds at that delimiter."""
    from pylatexenc.latexwalker import LatexWalker
    from pylatexenc.latexnodes.parsers import LatexDelimitedGroupParser, LatexMathParser, LatexSingleNodeParser
    if tol:
        return
    rest = s[q:]

    def cmp(label, legacy_fn, node_fn, body_of):
        acc.count('evaluations')
        lw1 = LatexWalker(s, tolerant_parsing=False)
        lw2 = LatexWalker(s, tolerant_parsing=False)
        o2 = outcome(lambda: node_fn(lw2))
        o1 = outcome(lambda: legacy_fn(lw1))
        case = dict(s=s, pos=q, structural=label)
        if o2[0] == 'ok' and o2[1] is not None:
            node = o2[1]
            acc.count('structural_ok')
            if o1[0] != 'ok':
                acc.violation(ID, 'structural', case, dict(kind='stop-condition-call-fails-where-v3-node-exists', what=label), observed=repr(o1))
                return
            nodes, p, l = o1[1]
            body = body_of(node)
            exp = canon.canon_node(body)
            got = canon.canon_node(nodes)
            if got[3] != exp[3] or p + l != node.pos_end:
                acc.violation(ID, 'structural', case, dict(kind='stop-condition-call-differs-from-v3-node', what=label),
                              observed=repr((got[3], p, l))[:500], expected=repr((exp[3], node.pos_end))[:500])
        elif o2[0] == 'parse-error':
            if o1[0] == 'ok':
                acc.violation(ID, 'structural', case, dict(kind='stop-condition-call-succeeds-where-v3-fails', what=label), observed=repr(ctuple(o1[1]))[:400])

    if rest.startswith('{'):
        cmp('group', lambda lw: lw.get_latex_nodes(q + 1, stop_upon_closing_brace='}'),
            lambda lw: lw.parse_content(LatexDelimitedGroupParser(delimiters=('{', '}')), token_reader=lw.make_token_reader(pos=q))[0],
            lambda n: n.nodelist)
    if rest.startswith('$') and not rest.startswith('$$'):
        def leg(lw):
            return lw.get_latex_nodes(q + 1, stop_upon_closing_mathmode='$',
                                      parsing_state=lw.make_parsing_state(in_math_mode=True, math_mode_delimiter='$'))
        cmp('math', leg,
            lambda lw: lw.parse_content(LatexMathParser(math_mode_delimiters='$'), token_reader=lw.make_token_reader(pos=q))[0],
            lambda n: n.nodelist)
    if rest.startswith('\\begin{itemize}') and not rest[len('\\begin{itemize}'):].lstrip().startswith('['):
        # (with a bracket following, the body does not start right after the \begin token)
        def envnode(lw):
            nl = lw.parse_content(LatexSingleNodeParser(), token_reader=lw.make_token_reader(pos=q))[0]
            n = nl[0]
            if n.nodeargd is not None and any(a is not None for a in n.nodeargd.argnlist):
                return None     # body does not start right after \begin{itemize}
            return n
        cmp('environment', lambda lw: lw.get_latex_nodes(q + len('\\begin{itemize}'), stop_upon_end_environment='itemize'),
            envnode, lambda n: n.nodelist)


# ---------------------------------------------------------------------------------------
# spec spellings

def spellings(a):
    """Every way of declaring a macro 'n' with argument string a: list of (label, spec factory)."""
    from pylatexenc import macrospec as ms
    out = [
        ('MacroSpec(n, a)', lambda: ms.MacroSpec('n', a)),
        ('MacroSpec(n, arguments_spec_list=list(a))', lambda: ms.MacroSpec('n', arguments_spec_list=list(a))),
        ('MacroSpec(n, args_parser=a)', lambda: ms.MacroSpec('n', args_parser=a)),
        ('MacroSpec(n, args_parser=MacroStandardArgsParser(a))', lambda: ms.MacroSpec('n', args_parser=ms.MacroStandardArgsParser(a))),
        ('MacroSpec(n, MacroStandardArgsParser(a))', lambda: ms.MacroSpec('n', ms.MacroStandardArgsParser(a))),
        ('std_macro(n, a)', lambda: ms.std_macro('n', a)),
        ('std_macro((n, a))', lambda: ms.std_macro(('n', a))),
    ]
    body = a[1:] if a.startswith('[') else a
    if all(c == '{' for c in body):
        out.append(('std_macro(n, optarg, numargs)', lambda: ms.std_macro('n', a.startswith('['), len(body))))
        out.append(('std_macro(n, None, a)', lambda: ms.std_macro('n', None, a)))
    return out


def env_spellings(a, math=False):
    from pylatexenc import macrospec as ms
    if math:
        # the same spellings for an environment whose body is in math mode
        return [
            ('EnvironmentSpec(n, a, is_math_mode=True)', lambda: ms.EnvironmentSpec('n', a, is_math_mode=True)),
            ('EnvironmentSpec(n, args_parser=a, is_math_mode=True)', lambda: ms.EnvironmentSpec('n', args_parser=a, is_math_mode=True)),
            ('EnvironmentSpec(n, args_parser=MacroStandardArgsParser(a), is_math_mode=True)',
             lambda: ms.EnvironmentSpec('n', args_parser=ms.MacroStandardArgsParser(a), is_math_mode=True)),
            ('std_environment(n, a, is_math_mode=True)', lambda: ms.std_environment('n', a, is_math_mode=True)),
        ]
    return [
        ('EnvironmentSpec(n, a)', lambda: ms.EnvironmentSpec('n', a)),
        ('EnvironmentSpec(n, args_parser=a)', lambda: ms.EnvironmentSpec('n', args_parser=a)),
        ('EnvironmentSpec(n, args_parser=MacroStandardArgsParser(a))', lambda: ms.EnvironmentSpec('n', args_parser=ms.MacroStandardArgsParser(a))),
        ('std_environment(n, a)', lambda: ms.std_environment('n', a)),
    ]


def mode_spellings(a, mode):
    """Arguments that switch to text / math mode: the pylatexenc-2 spelling (args_math_mode) against the
    pylatexenc-3 one (LatexArgumentSpec with a parsing-state delta)."""
    from pylatexenc import macrospec as ms
    from pylatexenc.latexnodes import LatexArgumentSpec, ParsingStateDeltaEnterMathMode, ParsingStateDeltaLeaveMathMode
    delta = ParsingStateDeltaEnterMathMode if mode else ParsingStateDeltaLeaveMathMode
    return [
        ('MacroSpec(n, [LatexArgumentSpec(x, parsing_state_delta=...)])',
         lambda: ms.MacroSpec('n', arguments_spec_list=[LatexArgumentSpec(x, parsing_state_delta=delta()) for x in a])),
        ('MacroSpec(n, args_parser=MacroStandardArgsParser(a, args_math_mode=[%r,..]))' % mode,
         lambda: ms.MacroSpec('n', args_parser=ms.MacroStandardArgsParser(a, args_math_mode=[mode] * len(a)))),
    ]


def check_mode_spellings(a, inputs, acc):
    for mode in (False, True):
        sp = mode_spellings(a, mode)
        for w in inputs:
            for frame in ('$%s$', '%s'):
                s = frame % ('\\n' + w)
                ref = None
                for (label, fac) in sp:
                    acc.count('evaluations')
                    o = outcome(lambda: parse_with_spec(fac(), s, False, pick=None))
                    case = dict(argspec=a, s=s, spelling=label, env=False, mode=mode)
                    if o[0] in ('exception', 'timeout'):
                        acc.violation(ID, 'modespellings', case, dict(kind='spelling-crashes', spelling=label, exc=o[1]))
                        continue
                    if ref is None:
                        ref = o
                        continue
                    if ref[0] == 'ok' and o[0] == 'ok' and _modes_only(o[1][0]) != _modes_only(ref[1][0]):
                        acc.violation(ID, 'modespellings', case, dict(kind='argument-mode-differs-from-v3-declaration', mode=mode),
                                      observed=repr(o[1][0])[:600], expected=repr(ref[1][0])[:600])


def _modes_only(c):
    """(kind, pos, in_math) triples of a canonical tree - the legacy parser builds some nodes differently, the
    recorded math/text mode of what it does build must agree."""
    out = []

    def walk(x):
        if isinstance(x, tuple):
            if x and isinstance(x[0], str) and x[0] in ('chars', 'group', 'macro', 'math', 'comment', 'specials', 'environment'):
                m = next((y for y in x if isinstance(y, tuple) and len(y) == 2 and isinstance(y[0], bool)), None)
                out.append((x[0], x[1], x[2], None if m is None else m[0]))
            for y in x:
                walk(y)
    walk(c)
    return sorted(out)


def parse_with_spec(spec, s, env=False, pick=0, extra=False):
    from pylatexenc import macrospec as ms
    from pylatexenc.latexwalker import LatexWalker
    from pylatexenc.latexnodes.parsers import LatexGeneralNodesParser
    db = ms.LatexContextDb()
    if env:
        db.add_context_category('c', environments=[spec])
    else:
        db.add_context_category('c', macros=[spec] + ([ms.MacroSpec('w', '[{')] if extra else []))
    lw = LatexWalker(s, latex_context=db, tolerant_parsing=False)
    nodes, _ = lw.parse_content(LatexGeneralNodesParser())
    if pick is None:
        return (canon.canon_node(nodes, modes=True), None, None)
    n = nodes[0]
    nodeargd = n.nodeargd
    legacy = None
    if not env:
        legacy = (canon.canon_node(n.nodeoptarg), tuple(canon.canon_node(x) for x in (n.nodeargs or [])))
    argspec = getattr(nodeargd, 'argspec', None)
    return (canon.canon_node(nodes, modes=True), argspec, legacy)


def check_spellings(a, inputs, acc, env=False, math=False):
    sp = env_spellings(a, math) if env else spellings(a)
    for w in inputs:
        s = ('\\begin{n}' + w + '\\end{n}') if env else ('\\n' + w)
        ref = None
        for (label, fac) in sp:
            acc.count('evaluations')
            o = outcome(lambda: parse_with_spec(fac(), s, env))
            case = dict(argspec=a, s=s, spelling=label, env=env)
            if o[0] in ('exception', 'timeout'):
                acc.violation(ID, 'spellings', case, dict(kind='spelling-crashes', spelling=label, exc=o[1]))
                continue
            if ref is None:
                ref = o          # the first spelling is the plain pylatexenc-3 one
                if o[0] == 'ok':
                    acc.count('nontrivial')
                    acc.outcome(('sp', a, o[1][1]))
                continue
            if ref[0] == 'ok':
                if o != ref:
                    acc.violation(ID, 'spellings', case, dict(kind='spelling-differs-from-v3-declaration', spelling=label),
                                  observed=repr(o)[:600], expected=repr(ref)[:600])
            # when the v3 declaration fails, legacy spellings may raise or return their documented empty result
        if env or len(w) > 2 * 1 + 1:
            continue
        # the same call inside the optional and the mandatory argument of a pylatexenc-3 macro, and after it: what the
        # legacy spelling leaves behind (parsing state, position) must not differ either
        s2 = '\\w[\\n' + w + ']{\\n' + w + '}x\\n' + w
        ref = None
        for (label, fac) in sp:
            acc.count('evaluations')
            o = outcome(lambda: parse_with_spec(fac(), s2, env, pick=None, extra=True))
            case = dict(argspec=a, s=s2, spelling=label, env=env, wrapped=True)
            if o[0] in ('exception', 'timeout'):
                acc.violation(ID, 'spellings', case, dict(kind='spelling-crashes', spelling=label, exc=o[1], wrapped=True))
                continue
            if ref is None:
                ref = o
                continue
            if o != ref:
                acc.violation(ID, 'spellings', case, dict(kind='spelling-differs-from-v3-declaration', spelling=label, wrapped=True),
                              observed=repr(o)[:600], expected=repr(ref)[:600])


WS_KINDS = ['', ' ', '\t', '\n', '\r', '\r\n', '\x0c', '\x0b', '\xa0', ' \n ', '\n\n', '%c\n', ' %c\n ']
WS_TAILS = ['[b]{c}', '[b]', '{c}', 'a', '*[b]', '[b', ']', '\\item[b]']


def plan(tier):
    b = BOUNDS[tier]
    shards = [('L', sh) for sh in words.prefix_shards(LEX, b['N'], 1)] + [('R', sh) for sh in words.prefix_shards(words.SIGMA_R, b['M'], 1)]
    argstrings = [''.join(w) for k in range(0, 5) for w in itertools.product('*[{', repeat=k)]
    shards += [('S', a) for a in argstrings] + [('W', i) for i in range(len(WS_KINDS))]
    return dict(
        shards=shards, bounds=dict(b, lexemes=LEX, variants=len(_variants()), argstrings=len(argstrings)),
        rule=('every word of length <= N over 14 lexemes at every lexeme boundary and every word of length <= M over the 13 raw characters at '
              'every position x %d legacy call variants x {strict, tolerant}; structural comparison at every "{", "$", \\begin{itemize}; spec '
              'spellings: all %d argument strings over {*,[,{} of length <= 4 x 7-9 macro spellings and 4 environment spellings x every input '
              '\\n.w with w of length <= W over {* [ ] { } a space}, and (w of length <= 2... 3 symbols) the same call wrapped in the optional and mandatory argument of a v3 macro; 13 kinds of white space (CR, CRLF, FF, VT, NBSP, comments, ...) x 8 argument tails x 6 heads through every legacy variant.  non-trivial = comparisons in which the v3 formulation returned a result.'
              % (len(_variants()), len(argstrings))),
        assumptions=['the literal v3 formulations in mc/checks/c16.py restate the documented meaning of each legacy call',
                     'when the v3 declaration fails on an input the legacy spelling may raise or return its documented empty result (only crashes are reported)'],
    )


def run_shard(shard, tier, acc):
    b = BOUNDS[tier]
    if shard[0] == 'L':
        for w in words.iter_shard(LEX, b['N'], shard[1]):
            s = words.render(LEX, w)
            positions = [0]
            for i in w:
                positions.append(positions[-1] + len(LEX[i]))
            check_word(s, sorted(set(positions)), acc)
            acc.sample(dict(s=s, positions=positions))
    elif shard[0] == 'R':
        for w in words.iter_shard(words.SIGMA_R, b['M'], shard[1]):
            s = words.render(words.SIGMA_R, w)
            check_word(s, list(range(len(s) + 1)), acc)
    elif shard[0] == 'W':
        # every kind of white space (also carriage return, form feed, no-break space, comments) in front of an argument
        for ws in [WS_KINDS[shard[1]]]:
            for tail in WS_TAILS:
                for head in ('', 'x', '\\textbf', '\\sqrt', '\\item', '\\\\'):
                    s = head + ws + tail
                    check_word(s, sorted(set([0, len(head), len(head) + len(ws)])), acc)
        for a in ('[', '[{', '{[', '*[', '[['):
            check_spellings(a, [ws + t for ws in [WS_KINDS[shard[1]]] for t in ('[a]{a}', '[a]', '{a}[a]', '*[a]', '[a][a]')], acc, env=False)
    else:
        a = shard[1]
        inputs = [''.join(w) for k in range(0, b['W'] + 1) for w in itertools.product(SPEC_ALPHA, repeat=k)]
        check_spellings(a, inputs, acc, env=False)
        check_spellings(a, inputs[:400], acc, env=True)
        check_spellings(a, inputs[:60], acc, env=True, math=True)
        if a and len(a) <= 2 and '*' not in a:
            check_mode_spellings(a, [w for w in inputs[:400] if w.count('{') == w.count('}')], acc)
        acc.sample(dict(argspec=a, inputs=len(inputs)), force=(a == '*[{'))


def replay(sub, case):
    acc = engine.Acc()
    if sub == 'shim':
        check_word(case['s'], [case['pos']], acc)
        acc.violations = [v for v in acc.violations if v['case'].get('variant') == case['variant'] and v['case'].get('tolerant') == case['tolerant']]
    elif sub == 'structural':
        check_structural(case['s'], case['pos'], False, acc)
    elif sub == 'tokseq':
        check_token_sequence(case['s'], case['pos'], case['tolerant'], acc)
    elif sub == 'modespellings':
        s = case['s']
        w = s.strip('$')[2:]
        check_mode_spellings(case['argspec'], [w], acc)
        acc.violations = [v for v in acc.violations if v['case'].get('s') == s and v['case'].get('mode') == case['mode']]
    else:
        s = case['s']
        w = s[len('\\begin{n}'):-len('\\end{n}')] if case['env'] else s[2:]
        if case.get('wrapped'):
            w = s.rsplit('x\\n', 1)[1]
        check_spellings(case['argspec'], [w], acc, env=case['env'], math='is_math_mode' in case['spelling'])
        acc.violations = [v for v in acc.violations if v['case'].get('spelling') == case['spelling'] and
                          bool(v['case'].get('wrapped')) == bool(case.get('wrapped'))]
    return acc.violations


def finish(tier, merged, plan):
    errs = []
    c = merged.counts
    if c['nontrivial'] < 100000 or c['structural_ok'] < 50:
        errs.append('sanity floor: nontrivial=%d structural_ok=%d' % (c['nontrivial'], c['structural_ok']))
    return errs
