# -*- coding: utf-8 -*-
"""C08 - encoding to LaTeX and converting back to text returns the original string.

BE over the invertible alphabet (every character with a built-in encoding except those of the
committed list mc/data/c08_not_invertible.json, plus printable ASCII, space, newline): every
invertible character in the frames c.n, n.c, n.c.n for one representative n of each of 12
neighbour classes; all strings of length <= 3 over 15 class representatives; thorough: every
ordered pair of invertible characters.  x 4 brace-protection schemes x 2 latex2text
whitespace policies.  Oracle: l2t(enc(s), tolerant_parsing=False) == NFC(s).
"""
import os
import json
import itertools
import unicodedata

from mc import engine
from mc.engine import run_guarded, exc_frame

ID = 'C08'
LEVEL = 'exploration'
TECHNIQUE = 'bounded-exhaustive strings over the invertible alphabet x configurations, round-trip oracle'

PROTS = ['braces', 'braces-all', 'braces-almost-all', 'braces-after-macro']
L2T = [dict(), dict(strict_latex_spaces=True)]
NEIGHBOURS = ['a', '1', ' ', '\n', '.', '{', 'é', 'ø', ' ', '\\', '%', '́']
REPS = ['a', 'B', '1', ' ', '\n', '.', '{', '}', 'é', 'ø', ' ', '\\', '%', '́', 'α', 'ñ']
LIGATURES = ['--', '``', "''", '!`', '?`']      # the ASCII ligature pairs of the default databases (excluded by the property)
BOUNDS = {'quick': dict(N=3, pairs=False), 'thorough': dict(N=3, pairs=True)}

_ALPHA = None
_OBJ = {}
_LOG = {}          # (prot, li) -> strings converted so far by the shared object of this worker


def alphabet():
    global _ALPHA
    if _ALPHA is None:
        from pylatexenc.latexencode import get_builtin_uni2latex_dict
        with open(os.path.join(engine.VERIF_DIR, 'mc', 'data', 'c08_not_invertible.json')) as f:
            data = json.load(f)
        bad = set(int(k, 16) for k in data['not_invertible'])
        cands = sorted(set(get_builtin_uni2latex_dict().keys()) | set(range(32, 127)) | {10})
        _ALPHA = [chr(c) for c in cands if c not in bad]
    return _ALPHA


def objs(prot, li):
    key = (prot, li)
    if key not in _OBJ:
        from pylatexenc.latexencode import UnicodeToLatexEncoder
        from pylatexenc.latex2text import LatexNodes2Text
        _OBJ[key] = fresh_objs(prot, li)
        _LOG[key] = []
    return _OBJ[key]


def fresh_objs(prot, li):
    from pylatexenc.latexencode import UnicodeToLatexEncoder
    from pylatexenc.latex2text import LatexNodes2Text
    return (UnicodeToLatexEncoder(replacement_latex_protection=prot, unknown_char_warning=False), LatexNodes2Text(**L2T[li]))


def roundtrip(pair, s):
    enc, l2t = pair
    st, res = run_guarded(lambda: l2t.latex_to_text(enc.unicode_to_latex(s), tolerant_parsing=False))
    return (st, res if st == 'ok' else (type(res).__name__ if st == 'exc' else None))


def find_history(prot, li, s, exp):
    """The shared objects fail on s although fresh ones do not: search the call log for the shortest prefix
    history (one earlier call, else two) after which fresh objects fail as well."""
    log = list(dict.fromkeys(_LOG[(prot, li)]))
    for p in log[:4000]:
        pair = fresh_objs(prot, li)
        roundtrip(pair, p)
        if roundtrip(pair, s) != ('ok', exp):
            return [p]
    return None


def admissible(s):
    n = unicodedata.normalize('NFC', s)
    if any(l in n for l in LIGATURES):
        return False          # ASCII ligature pairs are excluded as pairs
    # a blank line is one lexeme (paragraph break) whatever whitespace it is spelled with, and converts back
    # to its canonical spelling '\n\n': other spellings are many-to-one and excluded like the ligature pairs
    import re
    for m in re.finditer(r'\s+', n):
        run = m.group(0)
        if run.count('\n') >= 2 and run[run.find('\n'):run.rfind('\n') + 1] != '\n\n':
            return False
    bad = _bad()
    return all(ord(ch) not in bad for ch in n)


_BAD = None


def _bad():
    global _BAD
    if _BAD is None:
        with open(os.path.join(engine.VERIF_DIR, 'mc', 'data', 'c08_not_invertible.json')) as f:
            _BAD = set(int(k, 16) for k in json.load(f)['not_invertible'])
    return _BAD


def check(s, acc, sub, cfgs=None, history=None):
    exp = unicodedata.normalize('NFC', s)
    for prot in PROTS:
        for li in range(len(L2T)):
            if cfgs is not None and (prot, li) not in cfgs:
                continue
            enc, l2t = objs(prot, li)
            acc.count('evaluations')
            st, res = run_guarded(lambda: l2t.latex_to_text(enc.unicode_to_latex(s), tolerant_parsing=False))
            _LOG[(prot, li)].append(s)
            case = dict(s=s, protection=prot, l2t=li)
            if history is not None:
                case['history'] = history
            elif (st != 'ok' or res != exp) and roundtrip(fresh_objs(prot, li), s) == ('ok', exp):
                # the long-lived objects of this worker fail where fresh ones succeed: state carried between calls
                h = find_history(prot, li, s, exp)
                acc.count('state_dependent_failures')
                acc.violation(ID, 'history', dict(case, history=h if h is not None else _LOG[(prot, li)][-300:-1]),
                              dict(kind='round-trip-depends-on-earlier-calls', protection=prot, minimal_history_found=h is not None),
                              observed=repr(res)[:200], expected=repr(exp))
                _OBJ[(prot, li)] = fresh_objs(prot, li)
                _LOG[(prot, li)] = []
                continue
            if st != 'ok':
                acc.violation(ID, sub, case, dict(kind='round-trip-raises' if st == 'exc' else 'hang',
                                                  exc=type(res).__name__ if st == 'exc' else None,
                                                  frame=exc_frame(res) if st == 'exc' else None),
                              observed=repr(res)[:200], expected=repr(exp))
                continue
            if len(exp) > 1:
                acc.count('nontrivial')
            if res != exp:
                acc.violation(ID, sub, case, dict(kind='round-trip-differs', how=_how(res, exp), protection=prot,
                                                  l2t='strict' if li else 'default'),
                              observed=repr(res), expected=repr(exp), note=repr(enc.unicode_to_latex(s)))
    acc.outcome(exp)


def _how(got, exp):
    if got.replace(' ', '').replace('\n', '') == exp.replace(' ', '').replace('\n', ''):
        return 'whitespace'
    if len(got) < len(exp):
        return 'characters-lost'
    if len(got) > len(exp):
        return 'characters-added'
    return 'characters-changed'


def _customised_history(kind):
    """Runs in a forked child: one default converter is customised through its public latex_context attribute;
    converters built afterwards must still do the documented round trip."""
    from pylatexenc import latex2text as lt
    acc = engine.Acc()
    c1 = lt.LatexNodes2Text()
    if kind == 'prepend-category':
        c1.latex_context.add_context_category('mine', prepend=True, macros=[lt.MacroTextSpec('textbackslash', 'X'), lt.MacroTextSpec('S', 'Y')],
                                              specials=[lt.SpecialsTextSpec('~', 'Z')])
    else:
        c1.latex_context.set_unknown_macro_spec(lt.MacroTextSpec('', 'U'))
    c1.latex_to_text('a\\textbackslash b~c')
    _OBJ.clear()
    _LOG.clear()
    for s in ['\\', 'a\\b', '~', 'a~b', '\u00a7', '\u20ac', '\u00a0', 'a\u00a0b', '\u00e9~\\', '{\\}']:
        if admissible(s):
            check(s, acc, 'ctxhist')
    for v in acc.violations:
        v['case']['customisation'] = kind
    return acc


def plan(tier):
    b = BOUNDS[tier]
    A = alphabet()
    shards = [('frames', k) for k in range(32)] + [('reps', i) for i in range(len(REPS))] + [('ctxhist', 0), ('ctxhist', 1)]
    if b['pairs']:
        shards += [('pairs', k) for k in range(128)]
    return dict(
        shards=shards, bounds=dict(b, invertible_alphabet=len(A), neighbours=[repr(x) for x in NEIGHBOURS], reps=[repr(x) for x in REPS]),
        rule=('invertible alphabet = %d characters (built-in table + printable ASCII + newline minus mc/data/c08_not_invertible.json); every '
              'character c alone, doubled, and in the frames c.n, n.c, n.c.n for each of 12 neighbour representatives; all strings of length <= %d over 15 class '
              'representatives%s; strings containing an ASCII ligature pair are skipped; x 4 brace-protection schemes x 2 latex2text whitespace '
              'policies; the same round trip by converters built after another default converter was customised through its latex_context attribute (prepended category / unknown-macro spec; one forked process each).  non-trivial = strings of more than one character.' % (len(A), b['N'], '; every ordered pair of alphabet characters' if b['pairs'] else '')),
        assumptions=['the committed list of non-invertible characters (computed structurally, reviewed) fixes the alphabet; it is never rewritten by the check'],
    )


def run_shard(shard, tier, acc):
    b = BOUNDS[tier]
    A = alphabet()
    if shard[0] == 'ctxhist':
        a2 = engine.in_child(_customised_history, ['prepend-category', 'unknown-macro-spec'][shard[1]])
        if a2 is None:
            acc.violation(ID, 'ctxhist', dict(customisation=shard[1]), dict(kind='child-crashed'))
        else:
            acc.merge(a2)
        return
    if shard[0] == 'frames':
        for c in A[shard[1]::32]:
            for n in NEIGHBOURS:
                for s in (c + n, n + c, n + c + n):
                    if admissible(s):
                        check(s, acc, 'frames')
            check(c, acc, 'frames')
            if admissible(c + c):
                check(c + c, acc, 'frames')       # the character next to itself (would-be ligatures such as ,, << >>)
            acc.sample(dict(char=c, frames='c.n n.c n.c.n for 12 neighbours'))
    elif shard[0] == 'reps':
        first = REPS[shard[1]]
        for k in range(0, b['N']):
            for w in itertools.product(REPS, repeat=k):
                s = first + ''.join(w)
                if admissible(s):
                    check(s, acc, 'reps')
    else:
        k = shard[1]
        cfgs = [('braces', 0), ('braces-after-macro', 1)]
        for i, c in enumerate(A):
            if i % 128 != k:
                continue
            for d in A:
                s = c + d
                if admissible(s):
                    check(s, acc, 'pairs', cfgs)


def replay(sub, case):
    acc = engine.Acc()
    if sub == 'ctxhist':
        a2 = engine.in_child(_customised_history, case['customisation'])
        a2.violations = [v for v in a2.violations if v['case'].get('s') == case.get('s') and v['case'].get('protection') == case.get('protection')
                         and v['case'].get('l2t') == case.get('l2t')]
        return a2.violations
    if case.get('history') is not None:
        # fresh objects (fresh interpreter), the recorded earlier calls, then the case
        enc, l2t = objs(case['protection'], case['l2t'])
        for p in case['history']:
            roundtrip((enc, l2t), p)
        check(case['s'], acc, sub, [(case['protection'], case['l2t'])], history=case['history'])
        for v in acc.violations:
            v['signature'] = dict(kind='round-trip-depends-on-earlier-calls', protection=case['protection'],
                                  minimal_history_found=len(case['history']) == 1)
        return acc.violations
    check(case['s'], acc, sub, [(case['protection'], case['l2t'])])
    return acc.violations


def finish(tier, merged, plan):
    errs = []
    if len(alphabet()) < 1200:
        errs.append('sanity floor: invertible alphabet has only %d characters' % len(alphabet()))
    if merged.counts['nontrivial'] < 100000:
        errs.append('sanity floor: nontrivial=%d' % merged.counts['nontrivial'])
    return errs
