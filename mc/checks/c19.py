# -*- coding: utf-8 -*-
"""C19 - a node visitor sees every node exactly once, children first, in document order.

Trees: strict parses of the generated documents and tolerant parses of every word of the
sweep spaces (these contain None bodies and None nodeargd).  A recording LatexNodesVisitor
whose callbacks return fresh ids is compared with an independent post-order walk over the
public attributes.
"""
from mc import engine, sweeps, contexts, docgen, canon
from mc.engine import run_guarded, exc_frame

ID = 'C19'
LEVEL = 'exploration'
TECHNIQUE = 'bounded-exhaustive trees (generated documents + tolerant parses of all short words), recorded callback sequence vs independent post-order walk'

SPECS = {'quick': dict(R=4, L=3, A=3, Z=3, CR=3, E=3), 'thorough': dict(R=5, L=4, A=4, Z=4, CR=4, E=4)}


FALSY = [0, '', None, (), False]


def result_value(counter, falsy):
    # callbacks may return anything, also falsy values: the parent must be handed exactly that
    if falsy:
        return FALSY[counter % len(FALSY)]
    return ('r', counter)


def make_recorder(falsy=False):
    from pylatexenc.latexnodes.nodes import LatexNodesVisitor

    class Rec(LatexNodesVisitor):
        def __init__(self):
            self.events = []      # (callback name, id(obj) , kwargs with child ids)
            self.counter = 0

        def _rec(self, name, obj, kwargs):
            self.counter += 1
            rid = result_value(self.counter, falsy)
            self.events.append((name, id(obj), tuple(sorted((k, _fz(v)) for k, v in kwargs.items())), rid))
            return rid

        def visit_chars_node(self, node, **kw): return self._rec('chars', node, kw)
        def visit_group_node(self, node, **kw): return self._rec('group', node, kw)
        def visit_comment_node(self, node, **kw): return self._rec('comment', node, kw)
        def visit_macro_node(self, node, **kw): return self._rec('macro', node, kw)
        def visit_environment_node(self, node, **kw): return self._rec('environment', node, kw)
        def visit_specials_node(self, node, **kw): return self._rec('specials', node, kw)
        def visit_math_node(self, node, **kw): return self._rec('math', node, kw)
        def visit_node_list(self, nodes, **kw): return self._rec('list', nodes, kw)
        def visit_parsed_arguments(self, pa, **kw): return self._rec('args', pa, kw)
        def visit_unknown_node(self, node, **kw): return self._rec('unknown', node, kw)
    return Rec()


def _fz(v):
    if isinstance(v, list):
        return tuple(_fz(x) for x in v)
    return v


class Ref(object):
    """Independent post-order walk over public attributes; produces the expected events."""
    def __init__(self, falsy=False):
        self.events = []
        self.counter = 0
        self.falsy = falsy

    def emit(self, name, obj, **kwargs):
        self.counter += 1
        rid = result_value(self.counter, self.falsy)
        self.events.append((name, id(obj), tuple(sorted((k, _fz(v)) for k, v in kwargs.items())), rid))
        return rid

    def seq(self, items):
        # children in order; None placeholders for absent entries
        out = []
        for c in items:
            out.append(None if c is None else self.node(c))
        return out

    def args(self, nodeargd):
        # a call node without a parsed-arguments object hands its parent an empty result
        if nodeargd is None:
            return ''
        al = nodeargd.argnlist
        res = None if al is None else self.seq(al)
        return self.emit('args', nodeargd, visited_results_argnlist=res)

    def node(self, n):
        k = canon.kind_of(n)
        if k == 'list':
            res = self.seq(n.nodelist)
            return self.emit('list', n, visited_results_nodelist=res)
        if k in ('chars', 'comment'):
            return self.emit(k, n)
        if k == 'group':
            res = [] if n.nodelist is None else self.seq(n.nodelist)
            return self.emit('group', n, visited_results_nodelist=res)
        if k == 'math':
            res = None if n.nodelist is None else self.seq(n.nodelist)
            return self.emit('math', n, visited_results_nodelist=res)
        if k == 'macro':
            a = self.args(n.nodeargd)
            return self.emit('macro', n, visited_results_arguments=a)
        if k == 'specials':
            a = self.args(n.nodeargd)
            return self.emit('specials', n, visited_results_arguments=a)
        if k == 'environment':
            a = self.args(n.nodeargd)
            b = [] if n.nodelist is None else self.seq(n.nodelist)
            return self.emit('environment', n, visited_results_arguments=a, visited_results_body=b)
        return self.emit('unknown', n)


def plan(tier):
    spec = SPECS[tier]
    shards = [('tol', sh) for sh in sweeps.shards(spec)] + [('dd', sh) for sh in docgen.shards(tier)]
    return dict(
        shards=shards, bounds=spec,
        rule=('trees = tolerant parse of ' + sweeps.describe(spec) + '; strict parse of ' + docgen.describe(tier) +
              '.  On each tree a recording visitor is started and its callback sequence (callback kind, node identity, '
              'child results per keyword) compared with an independent post-order walk.  non-trivial = trees with at least '
              'one node that has children; trees are distinct by construction of their inputs.'),
        assumptions=['children = arguments in slot order (None placeholders), then the ParsedArguments object, then body nodes, then the node',
                     'group/environment with a None body hands an empty list, a formula with a None body hands None (as documented in descend_into_nodelist)'],
    )


def check_tree(nodes, case, acc, sub):
    acc.count('evaluations')
    if nodes is None:
        acc.count('none_result')
        return
    for falsy in (False, True):
        _check_tree_mode(nodes, case, acc, sub, falsy)


def _check_tree_mode(nodes, case, acc, sub, falsy):
    rec = make_recorder(falsy)
    st, res = run_guarded(rec.start, nodes)
    if st != 'ok':
        acc.violation(ID, sub, case, dict(kind='visitor-raises' if st == 'exc' else 'hang',
                                          exc=type(res).__name__ if st == 'exc' else None,
                                          frame=exc_frame(res) if st == 'exc' else None))
        return
    ref = Ref(falsy)
    ref.node(nodes)
    kinds = [e[0] for e in ref.events]
    if not falsy:
        acc.outcome(tuple(kinds))
        if any(k in ('group', 'math', 'macro', 'environment', 'specials') for k in kinds):
            acc.count('nontrivial')
        for k in set(kinds):
            acc.count('kind_' + k)
    # exactly once: no object (node, node list, argument record) is handed to a callback twice in one run
    seen_ids = {}
    for e in rec.events:
        seen_ids[e[1]] = seen_ids.get(e[1], 0) + 1
    dup = [e[0] for e in rec.events if seen_ids[e[1]] > 1]
    if dup and rec.events == ref.events:
        acc.violation(ID, sub, case, dict(kind='object-visited-more-than-once', at=dup[0], falsy_results=falsy),
                      observed=repr([(e[0], e[2], e[3]) for e in rec.events])[:800])
        return
    if rec.events != ref.events:
        # classify
        ids_rec = [e[1] for e in rec.events]
        ids_ref = [e[1] for e in ref.events]
        if sorted(ids_rec) != sorted(ids_ref):
            kind = 'node-skipped-or-visited-twice'
        elif ids_rec != ids_ref:
            kind = 'visit-order-differs'
        else:
            kind = 'child-results-differ'
        i = next((j for j, (a, b) in enumerate(zip(rec.events, ref.events)) if a != b), min(len(rec.events), len(ref.events)))
        at = ref.events[i][0] if i < len(ref.events) else 'end'
        acc.violation(ID, sub, case, dict(kind=kind, at=at, falsy_results=falsy),
                      observed=repr([(e[0], e[2], e[3]) for e in rec.events])[:800],
                      expected=repr([(e[0], e[2], e[3]) for e in ref.events])[:800])


def check_input(s, ctx, tolerant, acc, sub):
    case = dict(s=s, ctx=ctx, tolerant=tolerant)
    st, res = run_guarded(contexts.parse, s, ctx, tolerant)
    if st != 'ok':
        acc.count('not_parsed')
        return
    nodes = res[1]
    if nodes is not None and tolerant:
        if any(n is None for n in canon.iter_nodes(nodes)):
            acc.count('trees_with_none')
    check_tree(nodes, case, acc, sub)


def run_shard(shard, tier, acc):
    sub, sh = shard
    if sub == 'tol':
        for s, ctx in sweeps.iter_shard(SPECS[tier], sh):
            check_input(s, ctx, True, acc, sub)
            acc.sample(dict(s=s, ctx=ctx, tolerant=True))
    else:
        for doc in docgen.iter_shard(tier, sh):
            check_input(doc.text, doc.ctx, False, acc, sub)
            acc.sample(dict(s=doc.text, ctx=doc.ctx, tolerant=False))


def replay(sub, case):
    acc = engine.Acc()
    check_input(case['s'], case['ctx'], case['tolerant'], acc, sub)
    return acc.violations


def finish(tier, merged, plan):
    errs = []
    c = merged.counts
    for k in ('chars', 'group', 'comment', 'macro', 'environment', 'specials', 'math', 'list', 'args'):
        if c['kind_' + k] < 50:
            errs.append('sanity floor: callback kind %s in only %d trees' % (k, c['kind_' + k]))
    return errs
