# -*- coding: utf-8 -*-
"""C14 - context database lookups follow category order under every build history.

ES: depth-bounded search over *worlds* (lists of up to 3 real LatexContextDb objects) whose
transitions call the real API with one operation from a small menu (add_context_category in
all placement modes, set_unknown_macro_spec, freeze, filtered_context, extended_with).
Every reached world is rebuilt from its history, canonicalised (reference world + the
implementation's internal shape, so that equal keys have equal futures), and in every state
every database is queried for every name and compared with a boring reference model and
with the self-consistency oracle "first category in categories() that defines it".
"""
import itertools

from mc import engine
from mc.engine import run_guarded, exc_frame

ID = 'C14'
LEVEL = 'model_checking'
TECHNIQUE = 'explicit-state search over build histories of the real LatexContextDb, lock-step reference model, all databases of the world re-queried in every state'

BOUNDS = {'quick': dict(depth=4, maxdb=3, menu='std'),
          # thorough = the quick search + a richer menu at the same depth + a lean menu one level deeper
          'thorough': dict(depth=4, maxdb=3, menu='std', extra=[dict(depth=4, maxdb=3, menu='rich'), dict(depth=5, maxdb=2, menu='lean')])}
MENUS = {
    'std': dict(cats=['A', 'B', None], contents=[0, 1, 2], placements=list(range(8))),
    'rich': dict(cats=['A', 'B', 'C', None], contents=[0, 1, 2, 3], placements=list(range(8))),
    'lean': dict(cats=['A', None], contents=[1, 2], placements=[0, 1, 2, 3, 7]),
}

AUTO_PREFIX = '__lctxdb_cat_'
MACROS = ['x', 'y']
ENVS = ['x']
SPECIALS = ['-', '--', '---', '~~']
PROBES = ['-', '--', '---', '-a', 'a', '----', '~', '~~', '~~~', '~-']

CONTENTS = {
    0: dict(macros=[], environments=[], specials=[]),
    1: dict(macros=['x'], environments=[], specials=['--']),
    2: dict(macros=['x', 'y'], environments=['x'], specials=['-', '---', '~~']),       # '~~': a first character no other content has
    3: dict(macros=['y'], environments=['x'], specials=['--', '---']),
}
CATS = ['A', 'B', None]
PLACEMENTS = [('append', None), ('prepend', None), ('before', 'A'), ('after', 'A'),
              ('before', 'B'), ('after', 'B'), ('before', 'Z'), ('after', 'Z')]
FILTERS = [dict(keep_categories=['A']), dict(exclude_categories=['A']),
           dict(keep_which=['macros']), dict(), dict(keep_which=['specials']), dict(keep_which=['environments', 'specials'], exclude_categories=['B'])]
EXTENDS = [(None, 1, False), (None, 2, False), ('E', 1, False), ('A', 2, False), (None, 0, True)]


class Spec(object):
    def __init__(self, kind, name, label):
        self.kind = kind
        self.label = label
        if kind == 'macros':
            self.macroname = name
        elif kind == 'environments':
            self.environmentname = name
        else:
            self.specials_chars = name

    def __repr__(self):
        return 'Spec%r' % (self.label,)


def make_specs(catlabel, cid):
    c = CONTENTS[cid]
    out = {}
    for kind in ('macros', 'environments', 'specials'):
        out[kind] = [Spec(kind, n, (catlabel, cid, kind, n)) for n in c[kind]]
    return out


def ops_for(world_ref, maxdb, menu='std'):
    """Enabled operations in a world (from the reference world), simplest first."""
    M = MENUS[menu]
    ops = []
    for j, db in enumerate(world_ref):
        if not db['frozen']:
            ops.append(('freeze', j))
            ops.append(('set_unknown', j))
        for cat in M['cats']:
            for cid in M['contents']:
                for pi in M['placements']:
                    ops.append(('add', j, cat, cid, PLACEMENTS[pi]))
        if len(world_ref) < maxdb:
            for fi in range(len(FILTERS)):
                ops.append(('filter', j, fi))
            for ei in range(len(EXTENDS)):
                ops.append(('extend', j, ei))
    return ops


# --------------------------------------------------------------------------------------
# reference model: a db is dict(order=[(name, isauto)], content={name: {kind: {n: label}}},
#                               unknown=label|None, frozen=bool)

class RefError(Exception):
    pass


def ref_new():
    return dict(order=[], content={}, unknown=None, frozen=False, nauto=0)


def ref_apply(world, op):
    """Returns (new world, expected outcome) ; outcome 'ok' or an exception class name."""
    world = [dict(order=list(d['order']), content=dict(d['content']), unknown=d['unknown'],
                  frozen=d['frozen'], nauto=d['nauto']) for d in world]
    kind = op[0]
    db = world[op[1]]
    if kind == 'freeze':
        db['frozen'] = True
        return world, 'ok'
    if kind == 'set_unknown':
        if db['frozen']:
            return world, 'RuntimeError'
        db['unknown'] = ('U', op[1])
        return world, 'ok'
    if kind == 'add':
        _, j, cat, cid, (how, ref) = op
        if db['frozen']:
            return world, 'RuntimeError'
        if cat is None:
            name = ('auto', db['nauto'])
        else:
            name = cat
        if name in db['order']:
            return world, 'ValueError'
        if cat is None:
            db['nauto'] += 1
        order = db['order']
        if how == 'append':
            i = len(order)
        elif how == 'prepend':
            i = 0
        elif how == 'before':
            i = order.index(ref) if ref in order else 0
        else:
            i = order.index(ref) + 1 if ref in order else len(order)
        order.insert(i, name)
        catlabel = cat if cat is not None else 'auto'
        c = CONTENTS[cid]
        db['content'][name] = {k: {n: (catlabel, cid, k, n) for n in c[k]} for k in ('macros', 'environments', 'specials')}
        return world, 'ok'
    if kind == 'filter':
        f = FILTERS[op[2]]
        new = ref_new()
        new['unknown'] = db['unknown']
        new['nauto'] = 0
        which = f.get('keep_which') or ['macros', 'environments', 'specials']
        for name in db['order']:
            pub = name if not isinstance(name, tuple) else None
            if f.get('keep_categories') and pub not in f['keep_categories']:
                continue
            if f.get('exclude_categories') and pub in f['exclude_categories']:
                continue
            new['order'].append(name)
            new['content'][name] = {k: (dict(v) if k in which else {}) for k, v in db['content'][name].items()}
        # later automatic names in the filtered db must not clash: model by a fresh counter beyond existing
        new['nauto'] = max([n[1] + 1 for n in new['order'] if isinstance(n, tuple)] + [0])
        world.append(new)
        return world, 'ok'
    if kind == 'extend':
        cat, cid, override = EXTENDS[op[2]]
        if cat is not None and cat in db['order']:
            return world, 'ValueError'
        if not db['frozen']:
            return world, 'RuntimeError'
        new = dict(order=list(db['order']), content=dict(db['content']), unknown=db['unknown'],
                   frozen=True, nauto=db['nauto'])
        if override:
            new['unknown'] = ('UX',)
        catlabel = cat if cat is not None else 'auto'
        c = CONTENTS[cid]
        newc = {k: {n: (catlabel, cid, k, n) for n in c[k]} for k in ('macros', 'environments', 'specials')}
        if cat is None and new['order'] and isinstance(new['order'][0], tuple):
            first = new['order'][0]
            merged = {k: dict(v) for k, v in new['content'][first].items()}
            for k in merged:
                merged[k].update(newc[k])
            new['content'][first] = merged
        else:
            if cat is None:
                name = ('auto', new['nauto'])
                new['nauto'] += 1
            else:
                name = cat
            new['order'].insert(0, name)
            new['content'][name] = newc
        world.append(new)
        return world, 'ok'
    raise ValueError(op)


def ref_lookup(db, kind, name):
    for cat in db['order']:
        d = db['content'][cat][kind]
        if name in d:
            return d[name]
    if kind == 'macros':
        return db['unknown']
    return None


def ref_test_specials(db, s):
    best, bl = None, 0
    for cat in db['order']:
        for sc, lab in db['content'][cat]['specials'].items():
            if len(sc) > bl and s.startswith(sc):
                best, bl = lab, len(sc)
    return best


# --------------------------------------------------------------------------------------
# implementation side

def impl_apply(dbs, op, step):
    from pylatexenc.macrospec import LatexContextDb
    kind = op[0]
    db = dbs[op[1]]
    try:
        if kind == 'freeze':
            db.freeze()
        elif kind == 'set_unknown':
            db.set_unknown_macro_spec(Spec('macros', '', ('U', op[1])))
        elif kind == 'add':
            _, j, cat, cid, (how, ref) = op
            sp = make_specs(cat if cat is not None else 'auto', cid)
            kw = {}
            if how == 'prepend':
                kw['prepend'] = True
            elif how == 'before':
                kw['insert_before'] = ref
            elif how == 'after':
                kw['insert_after'] = ref
            db.add_context_category(cat, macros=sp['macros'], environments=sp['environments'],
                                    specials=sp['specials'], **kw)
        elif kind == 'filter':
            dbs.append(db.filtered_context(**FILTERS[op[2]]))
        elif kind == 'extend':
            cat, cid, override = EXTENDS[op[2]]
            sp = make_specs(cat if cat is not None else 'auto', cid)
            kw = {}
            if override:
                kw['unknown_macro_spec'] = Spec('macros', '', ('UX',))
            dbs.append(db.extended_with(cat, macros=sp['macros'], environments=sp['environments'],
                                        specials=sp['specials'], **kw))
        return 'ok'
    except (RuntimeError, ValueError, TypeError) as e:
        return type(e).__name__


def build(history):
    """Fresh real objects + reference world, handlers replayed."""
    from pylatexenc.macrospec import LatexContextDb
    dbs = [LatexContextDb()]
    world = [ref_new()]
    outcomes = []
    for step, op in enumerate(history):
        world, exp = ref_apply(world, op)
        got = impl_apply(dbs, op, step)
        outcomes.append((exp, got))
        if step < len(history) - 1:
            # every intermediate database is queried for every name (the answers were checked when this prefix was a
            # state of its own); what the queries leave behind in the objects is part of the history
            for db in dbs:
                for n in MACROS + ['q']:
                    db.get_macro_spec(n)
                for n in ENVS + ['q']:
                    db.get_environment_spec(n)
                for n in SPECIALS:
                    db.get_specials_spec(n)
                for pr in PROBES:
                    db.test_for_specials(pr, 0)
    return dbs, world, outcomes


def lab(x):
    return getattr(x, 'label', None) if x is not None else None


def norm_cat(c):
    return 'AUTO' if isinstance(c, tuple) or (isinstance(c, str) and c.startswith(AUTO_PREFIX)) else c


def observe(db):
    """Everything the public API answers for one database."""
    cats = db.categories()
    o = dict(categories=[norm_cat(c) for c in cats])
    o['macros'] = {n: lab(db.get_macro_spec(n)) for n in MACROS + ['q']}
    o['environments'] = {n: lab(db.get_environment_spec(n)) for n in ENVS + ['q']}
    o['specials'] = {n: lab(db.get_specials_spec(n)) for n in SPECIALS}
    o['test'] = {p: lab(db.test_for_specials(p, 0)) for p in PROBES}
    o['iter'] = {k: [lab(s) for s in getattr(db, 'iter_%s_specs' % kk)()]
                 for k, kk in (('macros', 'macro'), ('environments', 'environment'), ('specials', 'specials'))}
    # per-category content through the public iterators (self-consistency oracle)
    per = []
    for c in cats:
        per.append({k: {(_name(s)): lab(s) for s in getattr(db, 'iter_%s_specs' % kk)(categories=[c])}
                    for k, kk in (('macros', 'macro'), ('environments', 'environment'), ('specials', 'specials'))})
    o['per_category'] = per
    return o


def _name(s):
    return getattr(s, 'macroname', None) or getattr(s, 'environmentname', None) or getattr(s, 'specials_chars', None)


def expected(refdb):
    e = dict(categories=[norm_cat(c) for c in refdb['order']])
    e['macros'] = {n: ref_lookup(refdb, 'macros', n) for n in MACROS + ['q']}
    e['environments'] = {n: ref_lookup(refdb, 'environments', n) for n in ENVS + ['q']}
    e['specials'] = {n: ref_lookup(refdb, 'specials', n) for n in SPECIALS}
    e['test'] = {p: ref_test_specials(refdb, p) for p in PROBES}
    e['iter'] = {k: [l for c in refdb['order'] for l in refdb['content'][c][k].values()]
                 for k in ('macros', 'environments', 'specials')}
    return e


def self_consistent(o, unknown_label):
    """lookups == first category (in reported order) that defines the name; longest specials."""
    probs = []
    for k in ('macros', 'environments', 'specials'):
        for n, got in o[k].items():
            exp = None
            for per in o['per_category']:
                if n in per[k]:
                    exp = per[k][n]
                    break
            else:
                exp = unknown_label if k == 'macros' else None
            if got != exp:
                probs.append((k, n, got, exp))
    for p, got in o['test'].items():
        best, bl = None, 0
        for per in o['per_category']:
            for sc, l in per['specials'].items():
                if len(sc) > bl and p.startswith(sc):
                    best, bl = l, len(sc)
        if got != best:
            probs.append(('test', p, got, best))
    return probs


def canon_world(dbs, world):
    """Reference world + implementation shape (which dict object sits where in the chain maps)."""
    ids = {}

    def ix(obj):
        return ids.setdefault(id(obj), len(ids))
    out = []
    for db, ref in zip(dbs, world):
        shape = []
        for kind in ('macros', 'environments', 'specials'):
            maps = db.lookup_chain_maps[kind].maps
            row = []
            for m in maps:
                owner = None
                for c in db.category_list:
                    if db.d[c][kind] is m:
                        owner = norm_cat(c) + '@%d' % db.category_list.index(c)
                row.append((owner, ix(m), tuple(sorted(m.keys()))))
            shape.append(tuple(row))
        refc = (tuple(norm_cat(c) for c in ref['order']),
                tuple(tuple(sorted((k, tuple(sorted(v.items()))) for k, v in ref['content'][c].items())) for c in ref['order']),
                ref['unknown'], ref['frozen'])
        out.append((refc, tuple(shape), tuple(db.category_list) if False else len(db.category_list),
                    ix(db.category_list), db._autogen_category_counter, db.frozen,
                    tuple(c.startswith(AUTO_PREFIX) and c or c for c in db.category_list)))
    return tuple(out)


def check_state(history, dbs, world, outcomes, acc):
    case = dict(history=[list(map(_js, op)) for op in history])
    exp_out, got_out = outcomes[-1] if outcomes else ('ok', 'ok')
    if exp_out != got_out:
        op = history[-1]
        acc.violation(ID, 'es', case, dict(kind='operation-outcome', op=op[0], expected=exp_out, got=got_out),
                      observed=got_out, expected=exp_out)
    if len(dbs) != len(world):
        return
    for j, (db, ref) in enumerate(zip(dbs, world)):
        st, o = run_guarded(observe, db)
        if st != 'ok':
            acc.violation(ID, 'es', case, dict(kind='query-raises', exc=type(o).__name__ if st == 'exc' else st,
                                               frame=exc_frame(o) if st == 'exc' else None), observed=repr(o)[:300])
            continue
        acc.count('db_queries')
        for (k, n, got, exp) in self_consistent(o, lab(db.unknown_macro_spec)):
            acc.violation(ID, 'es', case,
                          dict(kind='lookup-not-first-category-in-reported-order', which=k),
                          observed=repr((j, n, got)), expected=repr(exp))
        e = expected(ref)
        for key in ('categories', 'macros', 'environments', 'specials', 'test'):
            if o[key] != e[key]:
                acc.violation(ID, 'es', case, dict(kind='differs-from-reference-model', what=key, last_op=_lastop(history)),
                              observed=repr((j, o[key])), expected=repr(e[key]))
        if sorted(map(repr, o['iter']['macros'])) != sorted(map(repr, e['iter']['macros'])):
            acc.violation(ID, 'es', case, dict(kind='differs-from-reference-model', what='iter', last_op=_lastop(history)),
                          observed=repr(o['iter']), expected=repr(e['iter']))


def _lastop(history):
    if not history:
        return None
    op = history[-1]
    if op[0] == 'add':
        return 'add:' + op[4][0]
    return op[0]


def _js(x):
    if isinstance(x, tuple):
        return list(x)
    return x


def _unjs(op):
    op = list(op)
    if op[0] == 'add':
        op[4] = tuple(op[4])
    return tuple(op)


def explore(prefix, depth, maxdb, acc, seen, menu='std'):
    """Breadth-first search below a history prefix (shortest histories first) with state
    merging; successors of a violating state are not explored (its counterexample is minimal)."""
    import collections
    queue = collections.deque([tuple(prefix)])
    while queue:
        hist = queue.popleft()
        dbs, world, outcomes = build(hist)
        acc.count('transitions')
        acc.count('evaluations')
        acc.count('traces_validated_against_impl')
        nv = len(acc.violations) + acc.counts['violating_cases']
        check_state(hist, dbs, world, outcomes, acc)
        if len(acc.violations) + acc.counts['violating_cases'] != nv:
            acc.count('pruned_after_violation')
            continue
        if len(dbs) != len(world):
            continue
        key = canon_world(dbs, world)
        rem = depth - len(hist)
        if key in seen:
            acc.count('merged')
            continue
        acc.count('states')
        if len(world) > 1 or len(world[0]['order']) > 1:
            acc.count('nontrivial')
        acc.outcome(key)
        seen[key] = rem
        if rem <= 0:
            continue
        for op in ops_for(world, maxdb, menu):
            queue.append(hist + (op,))
        acc.sample(dict(history=[list(map(_js, op)) for op in hist]))


def plan(tier):
    b = BOUNDS[tier]
    shards = [('std', b['depth'], b['maxdb'], (op,)) for op in ops_for([ref_new()], b['maxdb'], b['menu'])]
    for ex in b.get('extra', []):
        shards += [(ex['menu'], ex['depth'], ex['maxdb'], (op,)) for op in ops_for([ref_new()], ex['maxdb'], ex['menu'])]
    return dict(
        shards=shards,
        bounds=dict(b, cats=['A', 'B', None], contents=len(CONTENTS), placements=len(PLACEMENTS),
                    filters=FILTERS, extends=EXTENDS),
        rule=('all operation sequences of length <= %d over: add_context_category(3 names x 3 contents x 8 placements), '
              'set_unknown_macro_spec, freeze, filtered_context (6 variants), extended_with (5 variants) on worlds of <= %d '
              'databases; states merged on (reference world, internal chain-map shape, autogen counter); every database of '
              'every state queried for every name.  states = distinct canonical worlds (per shard), transitions = histories '
              'executed against the real objects; non-trivial = states with more than one category or database.  thorough adds a richer menu '
              '(4 names x 4 contents) at the same depth and a lean menu (2 names x 2 contents x 5 placements, <= 2 databases) one level deeper.' % (b['depth'], b['maxdb'])),
        assumptions=['equal canonical keys have equal futures: every mutator reads only category_list, d, the chain-map lists, the unknown specs, the frozen flag and the autogen counter, all of which are in the key',
                     'automatic category names are compared as AUTO'],
    )


def run_shard(shard, tier, acc):
    menu, depth, maxdb, prefix = shard
    explore(prefix, depth, maxdb, acc, {}, menu)


def replay(sub, case):
    acc = engine.Acc()
    hist = tuple(_unjs(op) for op in case['history'])
    dbs, world, outcomes = build(hist)
    check_state(hist, dbs, world, outcomes, acc)
    return acc.violations


def finish(tier, merged, plan):
    errs = []
    c = merged.counts
    if c['states'] < 500 or c['merged'] < 10:
        errs.append('sanity floor: states=%d merged=%d' % (c['states'], c['merged']))
    return errs
