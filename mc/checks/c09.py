# -*- coding: utf-8 -*-
r"""C09 - parsing is a pure function of input, context and flags.

ES over call histories: every sequence of length <= h over a menu of 19 parse calls chosen
so that every shared mutable object (process-wide cache of standard argument parsers, each
parser's lazily built inner parser, the cached default context, one custom context shared
by all walkers of a history) is touched from different calls.  The state is the history
itself (no merging).  Each history runs in a freshly forked pristine process image (the
parent never parses anything), so every history starts from the initial state; after every
call the canonical result must equal the baseline computed for the same call in a *fresh
interpreter* (one subprocess per menu entry per run), and the canonical form of the context
database must be unchanged by the call.
"""
import os
import sys
import json
import pickle
import itertools
import subprocess

from mc import engine, canon, contexts
from mc.engine import run_guarded, exc_frame

ID = 'C09'
LEVEL = 'model_checking'
TECHNIQUE = 'explicit-state search over call histories of the real parser (state = history), differential against fresh-interpreter baselines'

BOUNDS = {'quick': dict(h=3), 'thorough': dict(h=4)}

MENU = [
    (r'\mv{a{b}c}', 'A', False),
    (r'\mvb(a(b)c)x\mvb(d)', 'A', False),
    (r'\mv|x|\mv{y}\mv+z+', 'A', False),
    (r'\mo[x]{a}\ms*a\mt+{b}\mr(c)\md<e>f\many[g]\mmix*[h]{i}[j]{k}', 'A', False),
    (r'\verb|a{| \begin{verbatim}x{\end{verbatim}\verb+b+', 'D', False),
    (r'\begin{ea}{x}$a$\end{ea}\begin{emath}b\end{emath}\begin{everb}a{\end{everb}', 'A', False),
    (r'\mm{a}}\mo[\mv{a{b', 'A', True),
    (r'\mm{a}}\mo[\mv{a{b', 'A', False),
    (r'\textbf{a}\frac12\sqrt[3]{x}\\*[1]\item[a]$$x$$\begin{itemize}[b]\item c\end{itemize}', 'D', False),
    (r'\mv{a{b}c}\mvb(a(b)c)', 'A', True),
    (r'\begin{elist}\xitem[a] b\textbf{x}\end{elist}', 'X', False),
    (r'c \xitem[b] \pm{y}~', 'X', False),
    (r'\section* [s]{T}\cite[a] [b]{k}', 'D', False),
    (r'$$a\\ [A]\\* [B]$$ \item [z]', 'D', False),
    (r'\begin{foo}a\end{foo}', 'D', False),                                  # unknown environments (one shared fallback spec)
    (r'\begin{bar}b\end{bar}\begin{foo}c\end{foo}', 'D', False),
    (r'\begin{frac}x\end{frac}\sqrtx \begin{sqrt}y\end{sqrt}', 'D', False),  # names known as macros, used as environments
    (r'$\me^{a}_b{c}$ \me_d{e}', 'A', False),                               # embellishment arguments
    (r'\me{a}\me^b{c}', 'A', False),
    (r'{\me^ }x', 'A', True),                                              # an embellishment marker with nothing to read after it
    (r'{\me_ %c' + '\n' + r'}x', 'A', False),
    # child constructs inside delimited ([..], (..), <..>) arguments, in math and in text mode, under both databases
    (r'$\sqrt[\alpha{n}]{\frac{x}y}$ \sqrt[\textbf{m}]{z}', 'D', False),
    (r'\mo[\mm{x}\mo[y]{z}]{a}$\mo[{n}\mm{p}]{q}\mr(\mm{c})$\md<\mm{e}>f', 'A', False),
    # a macro that takes arguments, bare, as the single-token argument of another one (argument types m, r, d, o)
    (r'$\hat\vec x$ \textbf\emph y \textbf\sqrt z', 'D', False),
    (r'\mm\mr(c) \mm\md<e> \mm\mo[a]{b} \mm\mm x', 'A', True),
    (r'\mm\mr(c)', 'A', False),
    # no explicit context: every call builds a new default database from the module-level specification tables
    (r'\begin{theorem}[Main]x\end{theorem}\begin{proof}[p]y\end{proof}\begin{lemma}z\end{lemma}', 'N', False),
    (r'\textbf{a}\sqrt[3]{x}\begin{enumerate}[a]\item[b] c\end{enumerate}\begin{align}x\end{align}', 'N', False),
    # one walker object asked to parse several times (whole content, one node, whole content again)
    (r'\textbf{a}\sqrt[3]{x} b {c}', 'D', False, 'rewalk'),
    (r'\mo[x]{a}\mv|y| z', 'A', True, 'rewalk'),
]


def canon_db(db):
    """Id-free canonical form of a context database (what a later parse can observe)."""
    def specname(s):
        if s is None:
            return None
        return (type(s).__name__, getattr(s, 'macroname', None), getattr(s, 'environmentname', None),
                getattr(s, 'specials_chars', None), repr(getattr(s, 'arguments_spec_list', None))[:200])
    cats = list(db.categories())
    # the frozen flag is deliberately not part of the form: handing a database to a walker
    # freezes it by design, which changes no lookup
    out = [('categories', tuple(cats))]
    for cat in cats:
        d = db.d[cat]
        out.append((cat,
                    tuple(sorted((k, specname(v)) for k, v in d['macros'].items())),
                    tuple(sorted((k, specname(v)) for k, v in d['environments'].items())),
                    tuple(sorted((k, specname(v)) for k, v in d['specials'].items()))))
    out.append(('unknown', specname(db.unknown_macro_spec), specname(db.unknown_environment_spec),
                specname(db.unknown_specials_spec)))
    return tuple(out)


def do_call(i):
    """Perform menu call i; returns canonical outcome."""
    from pylatexenc.latexwalker import LatexWalkerParseError
    s, ctx, tol = MENU[i][:3]
    mode = MENU[i][3] if len(MENU[i]) > 3 else None
    db = contexts.get(ctx)
    dbs = ([db] if db is not None else []) + ([contexts.get('Xbase')] if ctx == 'X' else [])
    before = [canon_db(x) for x in dbs]
    st, res = run_guarded(contexts.parse if mode is None else _rewalk, s, ctx, tol)
    after = [canon_db(x) for x in dbs]
    if st == 'ok' and mode == 'rewalk':
        out = res
    elif st == 'ok':
        out = ('tree', canon.canon_node(res[1]))
    elif st == 'timeout':
        out = ('timeout',)
    elif isinstance(res, LatexWalkerParseError):
        out = ('parse-error', type(res).__name__, res.pos, str(res.msg)[:120])
    else:
        out = ('exception', type(res).__name__, exc_frame(res))
    return out, before == after


def _rewalk(s, ctx, tol):
    from pylatexenc.latexwalker import LatexWalker
    from pylatexenc.latexnodes.parsers import LatexGeneralNodesParser, LatexSingleNodeParser
    lw = LatexWalker(s, latex_context=contexts.get(ctx), tolerant_parsing=tol)
    r1 = canon.canon_node(lw.parse_content(LatexGeneralNodesParser())[0])
    r2 = canon.canon_node(lw.parse_content(LatexGeneralNodesParser())[0])
    n3 = lw.parse_content(LatexSingleNodeParser())[0]
    r4 = canon.canon_node(lw.parse_content(LatexGeneralNodesParser())[0])
    if r1 == r2 == r4:
        return ('tree', r1)
    return ('rewalk-differs', r1, r2, r4)


def baseline_main(i):
    engine.install_watchdog()
    out, same = do_call(i)
    sys.stdout.write(json.dumps([repr(out), same]))


_BASELINES = None


def baselines():
    """One fresh interpreter per menu entry."""
    global _BASELINES
    if _BASELINES is None:
        b = []
        env = dict(os.environ)
        env['PYTHONHASHSEED'] = '0'
        env['PYTHONPATH'] = engine.VERIF_DIR
        for i in range(len(MENU)):
            p = subprocess.run([sys.executable, '-c',
                                'import sys; sys.path.insert(0, %r); from mc.checks import c09; c09.baseline_main(%d)'
                                % (engine.VERIF_DIR, i)],
                               env=env, stdout=subprocess.PIPE, stderr=subprocess.PIPE, timeout=120)
            if p.returncode != 0:
                raise RuntimeError('baseline %d failed: %s' % (i, p.stderr.decode()[-2000:]))
            b.append(json.loads(p.stdout.decode()))
        _BASELINES = b
    return _BASELINES


def run_history_in_child(hist):
    """Fork a pristine child, run the history there, return list of (repr(outcome), ctx unchanged)."""
    rfd, wfd = os.pipe()
    pid = os.fork()
    if pid == 0:
        code = 0
        try:
            os.close(rfd)
            res = []
            for i in hist:
                out, same = do_call(i)
                res.append((repr(out), same))
            with os.fdopen(wfd, 'wb') as f:
                pickle.dump(res, f)
        except BaseException:
            code = 3
        finally:
            os._exit(code)
    os.close(wfd)
    with os.fdopen(rfd, 'rb') as f:
        data = f.read()
    os.waitpid(pid, 0)
    if not data:
        return None
    return pickle.loads(data)


def check_history(hist, base, acc):
    acc.count('evaluations')
    acc.count('states')
    res = run_history_in_child(hist)
    if res is None:
        acc.violation(ID, 'hist', dict(history=list(hist)), dict(kind='child-crashed'))
        return
    acc.count('traces_validated_against_impl')
    if len(hist) >= 2:
        acc.count('nontrivial')
    for step, (i, (out, same)) in enumerate(zip(hist, res)):
        acc.count('transitions')
        acc.outcome((i, out))
        if out.startswith("('rewalk-differs'"):
            acc.violation(ID, 'hist', dict(history=list(hist), step=step),
                          dict(kind='second-parse-on-the-same-walker-differs', call=i, input=MENU[i][0], ctx=MENU[i][1]), observed=out[:600])
            break
        if out != base[i][0]:
            prev = sorted(set(hist[:step]))
            acc.violation(ID, 'hist', dict(history=list(hist), step=step),
                          dict(kind='result-depends-on-history', call=i,
                               input=MENU[i][0], ctx=MENU[i][1]),
                          observed=out[:600], expected=base[i][0][:600],
                          note='earlier calls in this history: %r' % (prev,))
        if not same:
            acc.violation(ID, 'hist', dict(history=list(hist), step=step),
                          dict(kind='context-db-modified-by-parse', call=i))


def plan(tier):
    h = BOUNDS[tier]['h']
    base = baselines()
    n = len(MENU)
    shards = [()] + [(i,) for i in range(n)] + [(i, j) for i in range(n) for j in range(n)]
    return dict(
        shards=shards,
        bounds=dict(h=h, menu=[list(m) for m in MENU]),
        baselines=base,
        rule=('all call histories of length < %d, and those of length %d that stay within one context family, over the %d-entry menu of (document, context, flags) parse calls; each '
              'history is run in a pristine forked process; after every call its canonical tree/error is compared with the '
              'fresh-interpreter baseline of that call and the context database canonical form with its value before the call. '
              'non-trivial = histories with at least two calls; histories are distinct by construction, no state merging.' % (h, h, len(MENU))),
        assumptions=['a forked child of the never-parsing parent is an initial state (module caches empty, default context not yet built)'],
    )


GROUPS = None


def group_of(i):
    return MENU[i][1][0]       # 'A' (custom all-argument-types), 'D' (default), 'X' (context-extending), 'N' (no explicit context)


def run_shard(shard, tier, acc):
    h = BOUNDS[tier]['h']
    base = baselines()
    n = len(MENU)
    pre = tuple(shard)
    if len(pre) < 2:
        if len(pre) <= h and len(pre) > 0:
            check_history(pre, base, acc)
        return
    for extra in range(0, h - 2 + 1):
        for suf in itertools.product(range(n), repeat=extra):
            hist = pre + suf
            # the longest histories are restricted to calls on one context family (quick: length 3,
            # thorough: length 4); all shorter histories mix the families freely
            if len(hist) == h and len(hist) >= 3 and len(set(group_of(i) for i in hist)) > 1:
                acc.count('skipped_cross_family_longest')
                continue
            check_history(hist, base, acc)
            acc.sample(dict(history=list(hist)))


def replay(sub, case):
    acc = engine.Acc()
    check_history(tuple(case['history']), baselines(), acc)
    return acc.violations


def finish(tier, merged, plan):
    errs = []
    kinds = set()
    for b in plan['baselines']:
        kinds.add(b[0].split(',')[0])
        if not b[1]:
            errs.append('baseline call modified its context db')
    if len(kinds) < 2:
        errs.append('sanity floor: baselines show only %r' % kinds)
    if len(merged.outcomes) < len(MENU):
        errs.append('sanity floor: fewer distinct outcomes than menu entries')
    return errs
