# -*- coding: utf-8 -*-
r"""C15 - \input never reads outside the configured directory in strict mode.

BE over requested names x directory layouts on a real file system (fresh temporary
directory per shard, removed afterwards): layouts = every assignment of {absent, regular
file, symlink to an outside file, symlink to an inside file, directory} to the three slots
in/x, in/x.tex, in/x.latex, crossed with fixed fixtures (inside file in a subdirectory,
sibling directory whose name extends the base name, outside file, directory symlinks in both
directions).  Names = every path of <= 3 components over a 13-component vocabulary plus
absolute spellings.  Every file's content is a unique marker.
Oracle (independent of the code): a returned marker must belong to a file whose real path is
properly inside the real path of the base; a name whose joined path (or its .tex / .latex
completion when the bare name does not exist) is a file really inside must be read.
"""
import os
import shutil
import tempfile
import itertools

from mc import engine
from mc.engine import run_guarded, exc_frame

ID = 'C15'
LEVEL = 'exploration'
TECHNIQUE = 'bounded-exhaustive requested names x generated directory layouts on a real file system, containment oracle via unique file markers'

SLOT_STATES = ['absent', 'file', 'link-out', 'link-in', 'dir', 'link-via-dirlink']
COMPONENTS = ['x', 'x.tex', 'sub', 'g', 'g.tex', 'lnkdir', 'up', '..', '.', 'in2', 'out', 'secret', 's', '..n', '..n.tex', '..d']
BOUNDS = {'quick': dict(depth=2, depth_small=3), 'thorough': dict(depth=3, depth_small=3)}
# symlinked directory followed by '..': the file system resolves the link first (lexical collapsing gives another path)
EXTRA_NAMES = ['lnkdir/../in/x', 'lnkdir/../in/sub/g', 'lnkdir/../in2/s', 'lnkdir/../out/secret', 'sub/up/x', 'sub/up/sub/g',
               'sub/up/../out/secret', 'sub/up/../in/x', 'lnkdir/back', 'sub/up/lnkdir/../in/sub/g']
SMALL = ['x', 'sub', 'lnkdir', 'up', '..', 'in2', 'out', 'secret', 'g', 's']


def marker(rel):
    return 'MARK' + ''.join(ch if ch.isalnum() else 'Q' for ch in rel) + 'END'


def build_layout(root, slots):
    """Create the tree under root; returns dict marker -> absolute real path of the owning file."""
    owners = {}

    def mkfile(rel):
        p = os.path.join(root, rel)
        os.makedirs(os.path.dirname(p), exist_ok=True)
        with open(p, 'w') as f:
            f.write(marker(rel))
        owners[marker(rel)] = os.path.realpath(p)
    os.makedirs(os.path.join(root, 'in', 'sub'))
    os.makedirs(os.path.join(root, 'in2'))
    os.makedirs(os.path.join(root, 'out'))
    mkfile('in/sub/g.tex')
    mkfile('in/..n.tex')          # inside names that merely *begin* with two dots
    mkfile('in/..d/g.tex')
    mkfile('in2/s.tex')
    mkfile('in2/x.tex')
    mkfile('out/secret.tex')
    mkfile('out/x.tex')
    os.symlink('../out', os.path.join(root, 'in', 'lnkdir'))
    os.symlink('../in/sub/g.tex', os.path.join(root, 'out', 'back'))
    os.symlink('..', os.path.join(root, 'in', 'sub', 'up'))
    os.symlink('in', os.path.join(root, 'inlink'))
    for slot, state in zip(('x', 'x.tex', 'x.latex'), slots):
        p = os.path.join(root, 'in', slot)
        if state == 'file':
            mkfile('in/' + slot)
        elif state == 'link-out':
            os.symlink('../out/secret.tex', p)
        elif state == 'link-in':
            os.symlink('sub/g.tex', p)
        elif state == 'link-via-dirlink':
            os.symlink('lnkdir/secret.tex', p)     # file symlink whose target passes through a directory symlink that leads outside
        elif state == 'dir':
            os.makedirs(p)
            mkfile('in/' + slot + '/g.tex')
    return owners


def names(depth, vocab):
    out = []
    for k in range(1, depth + 1):
        for comps in itertools.product(vocab, repeat=k):
            out.append('/'.join(comps))
    return out


def inside(realp, base_real):
    b = base_real.rstrip(os.sep) + os.sep
    return realp.startswith(b)


def expected_readable(base, name):
    """Marker owner path if the documented resolution finds a file really inside the base, else None."""
    cand = os.path.join(base, name)
    target = None
    if os.path.exists(cand):
        target = cand
    elif os.path.exists(cand + '.tex'):
        target = cand + '.tex'
    elif os.path.exists(cand + '.latex'):
        target = cand + '.latex'
    if target is None or not os.path.isfile(target):
        return None
    rp = os.path.realpath(target)
    if inside(rp, os.path.realpath(base)):
        return rp
    return None


def check_name(l2t, base, name, owners, acc, case, via_l2t):
    acc.count('evaluations')
    st, res = run_guarded(l2t.read_input_file, name)
    if st != 'ok':
        acc.violation(ID, 'fs', case, dict(kind='read_input_file-raises' if st == 'exc' else 'hang',
                                           exc=type(res).__name__ if st == 'exc' else None))
        return
    base_real = os.path.realpath(base)
    exp = expected_readable(base, name)
    if res:
        owner = owners.get(res)
        acc.count('reads')
        if owner is None:
            acc.violation(ID, 'fs', case, dict(kind='unknown-content-returned'), observed=repr(res)[:100])
            return
        acc.count('nontrivial')
        if not inside(owner, base_real):
            how = 'sibling-directory-name-prefix' if owner.startswith(base_real) else \
                ('via-implicit-extension' if not os.path.exists(os.path.join(base, name)) else 'other')
            acc.violation(ID, 'fs', case, dict(kind='read-outside-directory', how=how),
                          observed=os.path.relpath(owner, os.path.dirname(base_real)), expected='nothing (file is outside)')
            return
        acc.outcome(('read', os.path.relpath(owner, base_real)))
    else:
        if exp is not None:
            acc.violation(ID, 'fs', case, dict(kind='inside-file-not-read'),
                          observed='empty', expected=os.path.relpath(exp, base_real))
            return
        acc.outcome(('refused',))
    if via_l2t and '/' in name or via_l2t and len(name) < 8:
        st, txt = run_guarded(l2t.latex_to_text, '\\input{%s} \\include{%s}' % (name, name))
        if st != 'ok':
            acc.violation(ID, 'fs', case, dict(kind='latex_to_text-raises', exc=type(txt).__name__ if st == 'exc' else st))
            return
        for m, owner in owners.items():
            if m in txt and not inside(owner, base_real):
                acc.violation(ID, 'fs', case, dict(kind='read-outside-directory', how='through-latex_to_text'),
                              observed=os.path.relpath(owner, os.path.dirname(base_real)))


def run_layout(slots, tier, acc):
    from pylatexenc.latex2text import LatexNodes2Text
    b = BOUNDS[tier]
    root = tempfile.mkdtemp(prefix='verif_c15_')
    try:
        owners = build_layout(root, slots)
        nm = names(b['depth'], COMPONENTS) + [n for n in names(b['depth_small'], SMALL) if n.count('/') == b['depth_small'] - 1 and b['depth_small'] > b['depth']]
        nm += EXTRA_NAMES
        for bi, base in enumerate([os.path.join(root, 'in'), os.path.join(root, 'in') + '/', os.path.join(root, 'inlink'),
                                   os.path.join(root, 'out', '..', 'in'), os.path.join(root, 'in', 'lnkdir', '..', 'in')]):
            l2t = LatexNodes2Text()
            l2t.set_tex_input_directory(base)
            absn = [os.path.join(root, 'in', 'x'), os.path.join(root, 'in2', 's.tex'), os.path.join(root, 'out', 'secret.tex'),
                    os.path.join(root, 'in', '..', 'out', 'secret'), os.path.join(root, 'in', 'sub', 'g'), os.path.join(root, 'in2', 'x')]
            for name in (nm if bi == 0 else nm[:200] + EXTRA_NAMES) + absn:
                shown = name.replace(root, '<root>')
                case = dict(slots=list(slots), base=['in', 'in/', 'inlink', 'out/../in', 'in/lnkdir/../in'][bi], name=shown)
                check_name(l2t, base, name, owners, acc, case, via_l2t=(bi == 0))
        # one converter object re-configured from directory to directory (after at least one read under the
        # previous directory): the containment check must follow the *current* directory
        shared = LatexNodes2Text()
        seq = [os.path.join(root, 'out'), os.path.join(root, 'in'), os.path.join(root, 'in2'), os.path.join(root, 'in')]
        for si, base in enumerate(seq):
            shared.set_tex_input_directory(base)
            owners_rel = owners
            for name in ['x', 'x.tex', 'secret', 's', 'sub/g', '../out/secret', '../out/x', '../in/x', '../in2/s', '../in/sub/g',
                         os.path.join(root, 'out', 'secret.tex'), os.path.join(root, 'in', 'sub', 'g.tex')]:
                case = dict(slots=list(slots), base='reconfigured:' + '>'.join(os.path.basename(b) for b in seq[:si + 1]),
                            name=name.replace(root, '<root>'))
                check_name(shared, base, name, owners, acc, case, via_l2t=False)
        # the same names first read without strict mode (same object, then another object), then in strict mode
        base = os.path.join(root, 'in')
        loose = LatexNodes2Text()
        loose.set_tex_input_directory(base, strict_input=False)
        other = LatexNodes2Text()
        other.set_tex_input_directory(base)
        seqn = ['x', 'sub/g', '../out/secret', '../out/x', 'lnkdir/secret', 'lnkdir/x', '../in2/s', os.path.join(root, 'out', 'secret.tex')]
        for name in seqn:
            acc.count('evaluations')
            st, res = run_guarded(loose.read_input_file, name)
            if st != 'ok':
                acc.violation(ID, 'fs', dict(slots=list(slots), base='non-strict', name=name.replace(root, '<root>')),
                              dict(kind='read_input_file-raises', exc=type(res).__name__ if st == 'exc' else None))
        loose.set_tex_input_directory(base, strict_input=True)
        # re-configured without the argument: strict mode is the documented default of every call
        loose2 = LatexNodes2Text()
        loose2.set_tex_input_directory(os.path.join(root, 'in2'), strict_input=False)
        loose2.read_input_file('../out/secret')
        loose2.set_tex_input_directory(base)
        for obj, tag in ((loose, 'strict-after-non-strict:same-object'), (other, 'strict-after-non-strict:other-object'),
                         (loose2, 'default-after-non-strict:same-object')):
            for name in seqn:
                check_name(obj, base, name, owners, acc, dict(slots=list(slots), base=tag, name=name.replace(root, '<root>')), via_l2t=False)
        # several converters alive at once, configured one after the other: every object keeps its own directory and strictness
        A = LatexNodes2Text()
        A.set_tex_input_directory(base)
        B = LatexNodes2Text()
        B.set_tex_input_directory(base, strict_input=False)
        for name in seqn:
            check_name(A, base, name, owners, acc, dict(slots=list(slots), base='two-converters:other-configured-non-strict-later', name=name.replace(root, '<root>')), via_l2t=False)
        Cc = LatexNodes2Text()
        outdir = os.path.join(root, 'out')
        Cc.set_tex_input_directory(outdir)
        for name in seqn + ['secret', 'x.tex']:
            check_name(A, base, name, owners, acc, dict(slots=list(slots), base='two-converters:other-configured-on-other-directory-later', name=name.replace(root, '<root>')), via_l2t=False)
        A2 = LatexNodes2Text()
        A2.set_tex_input_directory(base)
        for name in ['secret', 'x', '../in/x', '../in/sub/g', 'back']:
            check_name(Cc, outdir, name, owners, acc, dict(slots=list(slots), base='two-converters:first-object-after-second-configured', name=name.replace(root, '<root>')), via_l2t=False)
        # no directory configured: no file access at all
        l2t0 = LatexNodes2Text()
        for name in [os.path.join(root, 'in', 'sub', 'g.tex'), os.path.join(root, 'out', 'secret.tex')]:
            acc.count('evaluations')
            if l2t0.read_input_file(name) != '':
                acc.violation(ID, 'fs', dict(slots=list(slots), base=None, name=name.replace(root, '<root>')),
                              dict(kind='file-read-without-configured-directory'))
    finally:
        shutil.rmtree(root, ignore_errors=True)


def plan(tier):
    b = BOUNDS[tier]
    shards = list(itertools.product(range(len(SLOT_STATES)), repeat=3))
    return dict(
        shards=shards, bounds=dict(b, slot_states=SLOT_STATES, components=COMPONENTS, layouts=len(shards)),
        rule=('216 layouts (6 states, incl. a file symlink whose target passes through a directory symlink, for each of in/x, in/x.tex, in/x.latex) x fixtures (in/sub/g.tex, sibling in2/, outside out/, directory symlinks '
              'in/lnkdir -> ../out and in/sub/up -> .., file symlink out/back -> inside, base also reached through a symlink and with trailing slash / '
              'dot-dot spelling, also dot-dot after a symlinked directory) x 10 names that pass through a symlinked directory and then dot-dot x every name of <= %d components over 16 components, 6 absolute spellings; read_input_file and (for the plain base) '
              'latex_to_text of \\input/\\include; a converter re-configured between directories; 8 names read without strict mode and then in strict mode (same and other object); three converters alive at once and configured one after the other (non-strict, other directory).  non-trivial = calls that returned file content.' % b['depth']),
        assumptions=['os.path.realpath of the marker owner decides containment; files are identified by unique content markers'],
    )


def run_shard(shard, tier, acc):
    slots = tuple(SLOT_STATES[i] for i in shard)
    run_layout(slots, tier, acc)
    acc.sample(dict(slots=list(slots)), force=(shard[0] == 2 and shard[1] == 0))


def replay(sub, case):
    acc = engine.Acc()
    run_layout(tuple(case['slots']), 'thorough', acc)
    acc.violations = [v for v in acc.violations if v['case'].get('name') == case.get('name') and v['case'].get('base') == case.get('base')]
    return acc.violations


def finish(tier, merged, plan):
    errs = []
    c = merged.counts
    if c['reads'] < 1000 or len(merged.outcomes) < 5:
        errs.append('sanity floor: reads=%d outcomes=%d' % (c['reads'], len(merged.outcomes)))
    return errs
