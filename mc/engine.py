# -*- coding: utf-8 -*-
"""
Exploration engine shared by all checks.

A check module (mc/checks/cNN.py) provides

    ID, LEVEL, TECHNIQUE
    plan(tier)            -> dict(shards=[...picklable...], rule=str, bounds=dict, ...)
    run_shard(shard, tier, acc)   (runs in a forked worker; fills the accumulator)
    replay(case)          -> list of violation dicts (re-executes exactly one stored case)
    finish(tier, merged)  -> list of harness-error strings (sanity floors), optional

The engine distributes whole shards over long-lived forked workers (no fork per
execution), merges the accumulators, confirms each distinct violation signature in a fresh
interpreter, applies the known-findings file, writes the evidence file and prints the
interface lines.  Nothing is sampled: shards are enumerated completely; VERIF_SEED only
rotates shard order and picks which explored cases are printed as samples.
"""
from __future__ import print_function

import os
import sys
import json
import time
import signal
import hashlib
import logging
import warnings
import traceback
import subprocess
import collections
import multiprocessing

VERIF_DIR = os.path.dirname(os.path.dirname(os.path.abspath(__file__)))
REPO = os.environ.get('VERIF_REPO', '/repo')
if sys.path[0] != REPO:
    sys.path.insert(0, REPO)

logging.disable(logging.CRITICAL)
warnings.simplefilter('ignore')

NPROC = int(os.environ.get('VERIF_NPROC', '0')) or min(16, os.cpu_count() or 1)
OUT_DIR = os.path.join(VERIF_DIR, 'out')
REPLAY_DIR = os.path.join(OUT_DIR, 'replays')
# evidence of a run against a scratch copy (VERIF_REPO) never replaces the evidence of /repo itself
EVIDENCE_DIR = os.path.join(VERIF_DIR, 'evidence') if os.path.realpath(REPO) == '/repo' else os.path.join(OUT_DIR, 'evidence-scratch')
KNOWN_FINDINGS = os.path.join(VERIF_DIR, 'known_findings.json')

MAX_VIOL_PER_SIG = 4       # kept per signature per shard
MAX_OUTCOMES = 3000000     # cap on the distinct-outcome hash set (reported if hit)


# --------------------------------------------------------------------------------------
# watchdog: making waiting visible

class CaseTimeout(BaseException):
    """Raised inside a case when its CPU budget is exhausted (non-termination)."""


def _on_timer(signum, frame):
    raise CaseTimeout()


def install_watchdog():
    signal.signal(signal.SIGVTALRM, _on_timer)


def in_child(fn, *args):
    """Run fn(*args) in a forked child of this process and return its (picklable) result, or None if the
    child died.  Used where one history must start from the module state of the parent (which never runs
    the operations itself), so that histories are independent of each other."""
    import pickle
    rfd, wfd = os.pipe()
    pid = os.fork()
    if pid == 0:
        code = 0
        try:
            os.close(rfd)
            res = fn(*args)
            with os.fdopen(wfd, 'wb') as f:
                pickle.dump(res, f)
        except BaseException:
            code = 3
        finally:
            os._exit(code)
    os.close(wfd)
    with os.fdopen(rfd, 'rb') as f:
        data = f.read()
    os.waitpid(pid, 0)
    if not data:
        return None
    return pickle.loads(data)


def run_guarded(fn, *args, **kwargs):
    """Run fn under a CPU-time budget.  Returns ('ok', value) | ('exc', exception) |
    ('timeout', None).  CPU time (ITIMER_VIRTUAL) is immune to machine load."""
    budget = kwargs.pop('_budget', 4.0)
    signal.setitimer(signal.ITIMER_VIRTUAL, budget)
    try:
        try:
            v = fn(*args, **kwargs)
        finally:
            signal.setitimer(signal.ITIMER_VIRTUAL, 0)
        return ('ok', v)
    except CaseTimeout:
        signal.setitimer(signal.ITIMER_VIRTUAL, 0)
        return ('timeout', None)
    except RecursionError as e:
        return ('exc', e)
    except Exception as e:
        return ('exc', e)


def exc_frame(e):
    """'file.py:function' of the innermost frame inside pylatexenc (for signatures)."""
    tb = e.__traceback__
    last = None
    while tb is not None:
        fn = tb.tb_frame.f_code.co_filename
        if 'pylatexenc' in fn:
            last = '%s:%s' % (os.path.basename(fn), tb.tb_frame.f_code.co_name)
        tb = tb.tb_next
    return last or '?'


# --------------------------------------------------------------------------------------
# accumulator

def h64(obj):
    """Stable 64-bit hash of a canonical (repr-able) object."""
    if not isinstance(obj, (bytes, str)):
        obj = repr(obj)
    if isinstance(obj, str):
        obj = obj.encode('utf-8', 'surrogatepass')
    return int.from_bytes(hashlib.blake2b(obj, digest_size=8).digest(), 'big')


class ShardCut(BaseException):
    """Raised inside a worker when one shard has reported HANG_CAP non-terminating cases: every further case of that shard
    would burn the full CPU budget again.  The shard's violations so far are reported; the run fails anyway."""


HANG_CAP = 6


class Acc(object):
    cut_on_hangs = False

    def __init__(self):
        self.counts = collections.Counter()
        self.outcomes = set()
        self.outcomes_capped = False
        self.violations = []
        self._sig_seen = collections.Counter()
        self.samples = []
        self.sample_every = 9973
        self._n_for_samples = 0

    # counting
    def count(self, key, n=1):
        self.counts[key] += n

    def outcome(self, canon):
        if len(self.outcomes) < MAX_OUTCOMES:
            self.outcomes.add(h64(canon))
        else:
            self.outcomes_capped = True

    def sample(self, case, force=False):
        self._n_for_samples += 1
        if force or (self._n_for_samples % self.sample_every) == 1:
            if len(self.samples) < 6:
                self.samples.append(case)

    def violation(self, prop, check, case, signature, observed=None, expected=None, note=None):
        key = json.dumps(signature, sort_keys=True) + '|' + str(check)     # cap per signature and sub-check
        self._sig_seen[key] += 1
        self.counts['violating_cases'] += 1
        if self._sig_seen[key] <= MAX_VIOL_PER_SIG:
            self.violations.append(dict(
                property=prop, check=check, case=case, signature=signature,
                observed=observed, expected=expected, note=note,
            ))
        if isinstance(signature, dict) and signature.get('kind') == 'hang':
            self.counts['hangs'] += 1
            if self.cut_on_hangs and self.counts['hangs'] >= HANG_CAP:
                raise ShardCut()

    def merge(self, other):
        self.counts.update(other.counts)
        if len(self.outcomes) < MAX_OUTCOMES:
            self.outcomes |= other.outcomes
        else:
            self.outcomes_capped = True
        self.outcomes_capped = self.outcomes_capped or other.outcomes_capped
        self.violations.extend(other.violations)
        self._sig_seen.update(other._sig_seen)
        for s in other.samples:
            if len(self.samples) < 8:
                self.samples.append(s)


# --------------------------------------------------------------------------------------
# worker pool

_MOD = None
_TIER = None


def _worker_init(modname, tier):
    global _MOD, _TIER
    import importlib
    _MOD = importlib.import_module(modname)
    _TIER = tier
    install_watchdog()
    sys.setrecursionlimit(3000)


def _worker_run(ishard):
    i, shard = ishard
    acc = Acc()
    acc.sample_every = 997 + 2 * (i % 500)
    acc.cut_on_hangs = True
    t0 = time.time()
    try:
        try:
            _MOD.run_shard(shard, _TIER, acc)
        except ShardCut:
            acc.counts['shards_cut_after_repeated_hangs'] += 1
        err = None
        for v in acc.violations:
            v['shard'] = shard
            v['tier'] = _TIER
    except CaseTimeout:
        err = 'CaseTimeout escaped run_shard (shard %r)' % (shard,)
    except BaseException:
        err = traceback.format_exc()
    return i, acc, err, time.time() - t0


def run_shards(mod, tier, shards, seed=0, nproc=None):
    nproc = nproc or NPROC
    merged = Acc()
    errors = []
    order = list(enumerate(shards))
    if order:
        k = seed % len(order)
        order = order[k:] + order[:k]
    if nproc <= 1 or len(order) <= 1:
        _worker_init(mod.__name__, tier)
        for ish in order:
            i, acc, err, dt = _worker_run(ish)
            merged.merge(acc)
            if err:
                errors.append(err)
        return merged, errors
    ctx = multiprocessing.get_context('fork')
    # one forked process per shard: every shard starts from the state of the parent (which has planned but never run a
    # case), so whatever state a violation depends on was built inside its own shard and re-running that shard in a
    # fresh interpreter reproduces it
    pool = ctx.Pool(min(nproc, len(order)), initializer=_worker_init,
                    initargs=(mod.__name__, tier), maxtasksperchild=1)
    try:
        it = pool.imap_unordered(_worker_run, order, chunksize=1)
        # a worker process that dies (killed, crashed interpreter) loses its shard and imap would wait for ever: waiting is
        # made visible - no shard result for a long time is a harness error, not a silent hang
        limit = 1200 if tier == 'quick' else 4 * 3600
        done = 0
        while done < len(order):
            try:
                i, acc, err, dt = it.next(timeout=limit)
            except multiprocessing.TimeoutError:
                errors.append('no shard finished within %d s (%d of %d shards done): a worker process was lost or a shard does '
                              'not terminate' % (limit, done, len(order)))
                break
            except StopIteration:
                break
            done += 1
            merged.merge(acc)
            if err:
                errors.append(err)
    finally:
        pool.terminate()
        pool.join()
    return merged, errors


# --------------------------------------------------------------------------------------
# known findings

def load_known_findings():
    try:
        with open(KNOWN_FINDINGS) as f:
            return json.load(f)
    except IOError:
        return {'findings': [], 'fixed': []}


def match_known(viol, known):
    sig = viol['signature']
    for kf in known.get('findings', []):
        if kf.get('property') != viol['property']:
            continue
        m = kf.get('match', {})
        if m and all(sig.get(k) == v for k, v in m.items()):
            return kf
    return None


# --------------------------------------------------------------------------------------
# violations -> replay files

def write_replay(viol):
    if not os.path.isdir(REPLAY_DIR):
        os.makedirs(REPLAY_DIR)
    blob = json.dumps(viol, sort_keys=True, ensure_ascii=True, default=repr)
    sha = hashlib.sha1(blob.encode()).hexdigest()[:8]
    path = os.path.join(REPLAY_DIR, '%s-%s.json' % (viol['property'], sha))
    with open(path, 'w') as f:
        f.write(json.dumps(viol, sort_keys=True, indent=1, ensure_ascii=True, default=repr))
    return path


def confirm_in_fresh_interpreter(path):
    """Re-run one stored case in a fresh interpreter; True iff it fails there too."""
    env = dict(os.environ)
    env['PYTHONHASHSEED'] = '0'
    p = subprocess.run([sys.executable, os.path.join(VERIF_DIR, 'check'), '--replay', path,
                        '--quiet'], env=env, stdout=subprocess.PIPE, stderr=subprocess.STDOUT,
                       timeout=600)
    return p.returncode == 1, p.stdout.decode('utf-8', 'replace')


# --------------------------------------------------------------------------------------
# top level

def repo_head():
    try:
        return subprocess.check_output(['git', '-C', REPO, 'rev-parse', '--short', 'HEAD'],
                                       stderr=subprocess.DEVNULL).decode().strip()
    except Exception:
        return '?'


def run_check(mod, tier, seed):
    t0 = time.time()
    plan = mod.plan(tier)
    shards = plan['shards']
    flt = os.environ.get('VERIF_SHARD_FILTER')
    if flt and os.path.realpath(REPO) != '/repo':
        # scratch runs only (seeded changes that make most cases hang): explore the shards whose description contains the text
        shards = [sh for sh in shards if flt in repr(sh)]
        print('NOTE: scratch run restricted to %d shards matching %r' % (len(shards), flt))
    merged, errors = run_shards(mod, tier, shards, seed=seed)

    known = load_known_findings()
    # candidates per signature, shortest case first
    by_sig = collections.OrderedDict()
    for v in merged.violations:
        k = json.dumps(v['signature'], sort_keys=True)
        by_sig.setdefault(k, []).append(v)
    for k in by_sig:
        # shortest first, but interleave the sub-checks that reported it (a history-dependent case from one family
        # must not crowd out a self-contained case from another)
        groups = collections.OrderedDict()
        for v in sorted(by_sig[k], key=lambda v: len(json.dumps(v['case'], default=repr))):
            groups.setdefault(v['check'], []).append(v)
        inter = []
        while any(groups.values()):
            for g in groups.values():
                if g:
                    inter.append(g.pop(0))
        by_sig[k] = inter

    lines = []
    n_unknown = 0
    n_known = 0
    harness_errors = list(errors)
    for k, cands in by_sig.items():
        # a case that depends on what the worker had executed before does not reproduce in a fresh
        # interpreter: try a few more candidates of the same signature before giving up
        confirmed = None
        tried = []
        for v in cands[:16]:
            path = write_replay(v)
            ok, out = confirm_in_fresh_interpreter(path)
            tried.append((path, out))
            if ok:
                confirmed = (v, path)
                break
        if confirmed is None:
            # history-dependent within its shard: re-run the whole shard in a fresh interpreter and look for the same case
            for v in cands[:2]:
                if v.get('shard') is None:
                    continue
                v2 = dict(v, replay_mode='shard')
                path = write_replay(v2)
                ok, out = confirm_in_fresh_interpreter(path)
                tried.append((path, out))
                if ok:
                    confirmed = (v2, path)
                    break
        if confirmed is None:
            harness_errors.append('violation did not reproduce in a fresh interpreter (history-dependent?): %s\n%s'
                                  % (tried[0][0], tried[0][1][-1500:]))
            continue
        v, path = confirmed
        kf = match_known(v, known)
        if kf is not None:
            n_known += 1
            lines.append('KNOWN-FINDING: property=%s %s (e.g. replay=%s)' % (v['property'], kf.get('what', ''), path))
        else:
            n_unknown += 1
            lines.append('VIOLATION property=%s replay=%s' % (v['property'], path))
            lines.append('  signature=%s case=%s' % (k, json.dumps(v['case'], default=repr)[:300]))

    if hasattr(mod, 'finish'):
        try:
            harness_errors.extend(mod.finish(tier, merged, plan) or [])
        except Exception:
            harness_errors.append(traceback.format_exc())

    wall = time.time() - t0
    counts = dict(merged.counts)
    evaluations = int(counts.get('evaluations', 0))
    nontrivial = int(counts.get('nontrivial', 0))
    cov = {
        'evaluations': evaluations,
        'distinct_nontrivial': nontrivial,
        'rule': plan.get('rule', ''),
        'samples': merged.samples[:8] or plan.get('samples', []),
        'exhaustive': bool(plan.get('exhaustive', True)) and not harness_errors,
        'distinct_outcomes': len(merged.outcomes),
        'distinct_outcomes_capped': merged.outcomes_capped,
        'bounds': plan.get('bounds', {}),
        'shards': len(shards),
        'tallies': {k: int(v) for k, v in sorted(counts.items())},
        'known_findings_reported': n_known,
        'violating_cases_total': int(counts.get('violating_cases', 0)),
        'distinct_violation_signatures': len(by_sig),
        'repo_head': repo_head(),
        'technique': getattr(mod, 'TECHNIQUE', ''),
    }
    if mod.LEVEL == 'model_checking':
        cov['states'] = int(counts.get('states', evaluations))
        cov['transitions'] = int(counts.get('transitions', evaluations))
        cov['traces_validated_against_impl'] = int(counts.get('traces_validated_against_impl',
                                                              counts.get('transitions', evaluations)))
    ev = {
        'property_id': mod.ID,
        'tier': tier,
        'seed': int(seed),
        'level': mod.LEVEL,
        'coverage': cov,
        'assumptions': plan.get('assumptions', []),
        'wall_s': round(wall, 2),
        'violations': n_unknown,
    }
    if not os.path.isdir(EVIDENCE_DIR):
        os.makedirs(EVIDENCE_DIR)
    with open(os.path.join(EVIDENCE_DIR, mod.ID + '.json'), 'w') as f:
        json.dump(ev, f, indent=1, sort_keys=True, ensure_ascii=True, default=repr)
        f.write('\n')

    for l in lines:
        print(l)
    print('%s tier=%s evaluations=%d nontrivial=%d outcomes=%d violations=%d known=%d wall=%.1fs'
          % (mod.ID, tier, evaluations, nontrivial, len(merged.outcomes), n_unknown, n_known, wall))
    if harness_errors:
        for e in harness_errors[:10]:
            print('HARNESS-ERROR: ' + str(e)[:3000])
    if n_unknown:
        return 1
    return 2 if harness_errors else 0


def _untuple(x):
    """JSON turns the tuples of a shard descriptor into lists: turn them back (shards are nested tuples of scalars)."""
    if isinstance(x, list):
        return tuple(_untuple(y) for y in x)
    return x


def run_replay(mod, path, quiet=False):
    with open(path) as f:
        viol = json.load(f)
    install_watchdog()
    sys.setrecursionlimit(3000)
    want = json.dumps(viol['signature'], sort_keys=True)
    if viol.get('replay_mode') == 'shard':
        # the case depends on what its shard executed before it: same start state (plan only), same shard, same order
        tier = viol.get('tier', 'quick')
        mod.plan(tier)
        acc = Acc()
        shard = viol['shard']
        shard = _untuple(shard)
        mod.run_shard(shard, tier, acc)
        wc = json.dumps(viol['case'], sort_keys=True, default=repr)
        got = [g for g in acc.violations if json.dumps(g['case'], sort_keys=True, default=repr) == wc]
        if not got:
            got = [g for g in acc.violations if json.dumps(g['signature'], sort_keys=True) == want][:1]
    else:
        got = mod.replay(viol['check'], viol['case'])
    same = [g for g in got if json.dumps(g['signature'], sort_keys=True) == want]
    if not quiet:
        for g in got:
            print(json.dumps(g, indent=1, sort_keys=True, default=repr))
    if same:
        print('VIOLATION property=%s replay=%s' % (viol['property'], path))
        return 1
    if got:
        print('replay produced different violation(s): %s' %
              [g['signature'] for g in got])
        return 1
    print('replay: no violation')
    return 0
