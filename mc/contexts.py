# -*- coding: utf-8 -*-
"""Custom contexts used by several checks (DESIGN 3.2)."""

_CACHE = {}

# macro name -> argument spec list (strings understood by LatexStandardArgumentParser)
CTXA_MACROS = [
    ('mm', ['m']),
    ('mb', ['{']),
    ('mo', ['o', 'm']),
    ('ms', ['s', 'm']),
    ('mstar', ['*', '{']),
    ('mt', ['t+', 'm']),
    ('mr', ['r()']),
    ('md', ['d<>', 'm']),
    ('mv', ['v']),
    ('mvb', ['v()']),
    ('many', ['AnyDelimited']),
    ('mmix', ['*', '[', '{', '[', '{']),
    ('mz', []),
    ('mend', ['m', 's']),               # optional marker as the LAST declared argument
    ('mtx', [('m', 'text'), 'm']),      # text-mode argument followed by an ordinary one
    ('mmx', [('m', 'math'), 'm']),      # math-mode argument followed by an ordinary one
    ('mch', [('m', 'chain-text')]),    # text-mode argument declared through a chain of deltas (mode switch first)
    ('me', ['e{^_}', 'm']),             # embellishments (xparse 'e'), followed by a mandatory argument
    ('lvi', 'legacy-verb'),             # pylatexenc-2 style \verb-like macro with a leading optional argument
    ('setx', 'after-delta'),            # no arguments; its spec returns a parsing-state delta for what follows
    ('lst', 'legacy-std:{*[{'),         # pylatexenc-2 spelling: args_parser=MacroStandardArgsParser('{*[{')
    ('ltx', 'legacy-modes:{{:F-'),      # pylatexenc-2 spelling with args_math_mode=[False, None] (text-mode argument, then ordinary)
    ('lmx', 'legacy-modes:{{:T-'),      # ... args_math_mode=[True, None]
]
CTXA_ENVS = [
    ('ea', ['{']),
    ('eo', ['[']),
    ('ez', []),
]
CTXA_SPECIALS = ['~', '--', '---', '\n\n']


def ctx_a(with_unknown=True):
    key = ('A', with_unknown)
    if key in _CACHE:
        return _CACHE[key]
    from pylatexenc import macrospec
    from pylatexenc.latexnodes import ParsingStateDeltaEnterMathMode
    from pylatexenc.latexnodes.parsers import LatexVerbatimEnvironmentContentsParser
    db = macrospec.LatexContextDb()
    from pylatexenc.latexnodes import LatexArgumentSpec, ParsingStateDeltaLeaveMathMode

    def _arg(a):
        if isinstance(a, tuple):
            if a[1] == 'chain-text':
                from pylatexenc.latexnodes import ParsingStateDeltaChained, ParsingStateDelta
                delta = ParsingStateDeltaChained([ParsingStateDeltaLeaveMathMode(),
                                                  ParsingStateDelta(set_attributes=dict(forbidden_characters='\x7f'))])
                return LatexArgumentSpec(a[0], parsing_state_delta=delta)
            delta = ParsingStateDeltaLeaveMathMode() if a[1] == 'text' else ParsingStateDeltaEnterMathMode()
            return LatexArgumentSpec(a[0], parsing_state_delta=delta)
        return a
    from pylatexenc.latexnodes import ParsingStateDelta

    def _after(parsed_node, latex_walker, **kwargs):
        # a state change that is local to the enclosing group / formula / environment, like a TeX assignment;
        # it alters nothing the generated documents can observe (DEL is never generated)
        return ParsingStateDelta(set_attributes=dict(forbidden_characters='\x7f'))
    macros = []
    for (n, a) in CTXA_MACROS:
        if a == 'legacy-verb':
            macros.append(macrospec.MacroSpec(n, args_parser=macrospec.VerbatimArgsParser(
                verbatim_arg_type='verb-macro', verbatim_argspec='[')))
        elif isinstance(a, str) and a.startswith('legacy-modes:'):
            _, spec, modes = a.split(':')
            amm = [dict(F=False, T=True).get(ch) for ch in modes]
            macros.append(macrospec.MacroSpec(n, args_parser=macrospec.MacroStandardArgsParser(spec, args_math_mode=amm)))
        elif isinstance(a, str) and a.startswith('legacy-std:'):
            macros.append(macrospec.MacroSpec(n, args_parser=macrospec.MacroStandardArgsParser(a.split(':', 1)[1])))
        elif a == 'after-delta':
            macros.append(macrospec.MacroSpec(n, arguments_spec_list=[], make_after_parsing_state_delta=_after))
        else:
            macros.append(macrospec.MacroSpec(n, arguments_spec_list=[_arg(x) for x in a]))
    envs = [macrospec.EnvironmentSpec(n, arguments_spec_list=list(a)) for (n, a) in CTXA_ENVS]
    envs.append(macrospec.EnvironmentSpec('emath', arguments_spec_list=[],
                                          body_parsing_state_delta=ParsingStateDeltaEnterMathMode()))
    envs.append(macrospec.EnvironmentSpec(
        'everb', arguments_spec_list=[],
        make_body_parser=lambda token, nodeargd, arg_parsing_state_delta:
            LatexVerbatimEnvironmentContentsParser(environment_name='everb')))
    specials = [macrospec.SpecialsSpec(c) for c in CTXA_SPECIALS]
    db.add_context_category('ctxA', macros=macros, environments=envs, specials=specials)
    if with_unknown:
        db.set_unknown_macro_spec(macrospec.MacroSpec(''))
        db.set_unknown_environment_spec(macrospec.EnvironmentSpec(''))
    db.freeze()
    _CACHE[key] = db
    return db


def ctx_x():
    """A database derived by extended_with() (so its first category is internally named) that contains an
    environment whose body extends the context while parsing (definitions local to the body)."""
    if 'X' in _CACHE:
        return _CACHE['X']
    from pylatexenc import macrospec
    from pylatexenc.latexnodes import LatexArgumentSpec
    base = macrospec.LatexContextDb()
    base.add_context_category(
        'base',
        macros=[macrospec.MacroSpec('textbf', '{'),
                # a text-mode argument whose delta also defines a macro local to the argument
                macrospec.MacroSpec('tx', arguments_spec_list=[LatexArgumentSpec(
                    '{', parsing_state_delta=macrospec.ParsingStateDeltaExtendLatexContextDb(
                        extend_latex_context=dict(macros=[macrospec.MacroSpec('lt', '{')]),
                        set_attributes=dict(in_math_mode=False, math_mode_delimiter=None)))])],
        environments=[
            # a math environment whose body delta also defines a macro local to the body
            macrospec.EnvironmentSpec(
                'emx', '',
                body_parsing_state_delta=macrospec.ParsingStateDeltaExtendLatexContextDb(
                    extend_latex_context=dict(macros=[macrospec.MacroSpec('lm', '{')]),
                    set_attributes=dict(in_math_mode=True, math_mode_delimiter=None)),
            ),
            macrospec.EnvironmentSpec(
                'elist', '',
                body_parsing_state_delta=macrospec.ParsingStateDeltaExtendLatexContextDb(
                    extend_latex_context=dict(macros=[macrospec.MacroSpec('xitem', '[')])
                ),
            ),
        ],
        specials=[macrospec.SpecialsSpec('~')],
    )
    base.set_unknown_macro_spec(macrospec.MacroSpec(''))
    base.set_unknown_environment_spec(macrospec.EnvironmentSpec(''))
    base.freeze()
    db = base.extended_with(macros=[macrospec.MacroSpec('pm', '{')])
    _CACHE['X'] = db
    _CACHE['Xbase'] = base
    return db


def ctx_d():
    from pylatexenc.latexwalker import get_default_latex_context_db
    if 'D' not in _CACHE:
        _CACHE['D'] = get_default_latex_context_db()
    return _CACHE['D']


def get(name):
    if name == 'N':
        return None         # no explicit context: the walker builds a new default database itself
    if name in ('D', 'C'):
        return ctx_d()
    if name == 'A':
        return ctx_a(True)
    if name == 'A0':
        return ctx_a(False)
    if name == 'X':
        return ctx_x()
    if name == 'Xbase':
        ctx_x()
        return _CACHE['Xbase']
    raise KeyError(name)


def parse(s, ctx='D', tolerant=False, **kw):
    """Parse s with LatexGeneralNodesParser; returns (walker, nodelist)."""
    from pylatexenc.latexwalker import LatexWalker
    from pylatexenc.latexnodes.parsers import LatexGeneralNodesParser
    lw = LatexWalker(s, latex_context=get(ctx), tolerant_parsing=tolerant, **kw)
    nodes, _ = lw.parse_content(LatexGeneralNodesParser())
    return lw, nodes
