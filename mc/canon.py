# -*- coding: utf-8 -*-
"""Canonical (hashable, id-free) dumps of node trees, tokens and parsing states."""


def kind_of(n):
    from pylatexenc.latexnodes import nodes as N
    if n is None:
        return 'none'
    if isinstance(n, N.LatexNodeList):
        return 'list'
    if isinstance(n, list):
        return 'pylist'
    if isinstance(n, N.LatexCharsNode):
        return 'chars'
    if isinstance(n, N.LatexGroupNode):
        return 'group'
    if isinstance(n, N.LatexCommentNode):
        return 'comment'
    if isinstance(n, N.LatexMacroNode):
        return 'macro'
    if isinstance(n, N.LatexEnvironmentNode):
        return 'environment'
    if isinstance(n, N.LatexSpecialsNode):
        return 'specials'
    if isinstance(n, N.LatexMathNode):
        return 'math'
    return 'unknown:' + type(n).__name__


def _mode(n):
    ps = getattr(n, 'parsing_state', None)
    if ps is None:
        return None
    return (bool(ps.in_math_mode), ps.math_mode_delimiter)


def _tup(x):
    if x is None:
        return None
    if isinstance(x, (list, tuple)):
        return tuple(x)
    return x


def canon_args(nodeargd, modes=True):
    if nodeargd is None:
        return None
    argnlist = getattr(nodeargd, 'argnlist', None)
    extra = ()
    # verbatim-like parsed args carry extra public fields
    for f in ('verbatim_text', 'verbatim_delimiters'):
        if hasattr(nodeargd, f):
            extra += ((f, _tup(getattr(nodeargd, f))),)
    if argnlist is None:
        return ('args', None, extra)
    return ('args', tuple(canon_node(a, modes) for a in argnlist), extra)


def canon_node(n, modes=True):
    """Nested tuples: (kind, pos, pos_end, kind-specific fields, mode, args, body)."""
    k = kind_of(n)
    if k == 'none':
        return None
    if k == 'list':
        return ('list', n.pos, n.pos_end, tuple(canon_node(c, modes) for c in n.nodelist))
    if k == 'pylist':
        return ('pylist', tuple(canon_node(c, modes) for c in n))
    m = _mode(n) if modes else None
    if k == 'chars':
        return (k, n.pos, n.pos_end, n.chars, m)
    if k == 'comment':
        return (k, n.pos, n.pos_end, n.comment, n.comment_post_space, m)
    if k == 'group':
        return (k, n.pos, n.pos_end, _tup(n.delimiters), m, canon_body(n.nodelist, modes))
    if k == 'math':
        return (k, n.pos, n.pos_end, n.displaytype, _tup(n.delimiters), m,
                canon_body(n.nodelist, modes))
    if k == 'macro':
        return (k, n.pos, n.pos_end, n.macroname, n.macro_post_space, m,
                canon_args(n.nodeargd, modes))
    if k == 'specials':
        return (k, n.pos, n.pos_end, n.specials_chars, m, canon_args(n.nodeargd, modes))
    if k == 'environment':
        return (k, n.pos, n.pos_end, n.environmentname, m, canon_args(n.nodeargd, modes),
                canon_body(n.nodelist, modes))
    return (k, getattr(n, 'pos', None), getattr(n, 'pos_end', None))


def canon_body(nl, modes=True):
    if nl is None:
        return None
    from pylatexenc.latexnodes import nodes as N
    if isinstance(nl, N.LatexNodeList):
        return ('body', nl.pos, nl.pos_end, tuple(canon_node(c, modes) for c in nl.nodelist))
    return ('body', None, None, tuple(canon_node(c, modes) for c in nl))


def shape(c):
    """Position-free skeleton of a canonical node (kinds and names only) - for tallies."""
    if c is None:
        return None
    if isinstance(c, tuple) and c and isinstance(c[0], str):
        k = c[0]
        if k in ('list', 'pylist', 'body'):
            return (k, tuple(shape(x) for x in c[-1]))
        if k == 'chars':
            return 'c'
        if k == 'comment':
            return '%'
        if k == 'group':
            return ('g', c[3], shape(c[5]))
        if k == 'math':
            return ('m', c[3], shape(c[6]))
        if k == 'macro':
            return ('M', c[3], shape(c[6]))
        if k == 'specials':
            return ('S', c[3], shape(c[5]))
        if k == 'environment':
            return ('E', c[3], shape(c[5]), shape(c[6]))
        if k == 'args':
            return ('a', None if c[1] is None else tuple(shape(x) for x in c[1]))
    return '?'


def iter_nodes(n):
    """Yield every node object reachable (arguments in slot order, then body), pre-order."""
    k = kind_of(n)
    if k == 'none':
        return
    if k in ('list', 'pylist'):
        for c in (n.nodelist if k == 'list' else n):
            for x in iter_nodes(c):
                yield x
        return
    yield n
    nodeargd = getattr(n, 'nodeargd', None)
    if nodeargd is not None and getattr(nodeargd, 'argnlist', None):
        for a in nodeargd.argnlist:
            for x in iter_nodes(a):
                yield x
    if k in ('group', 'math', 'environment') and n.nodelist is not None:
        for c in n.nodelist:
            for x in iter_nodes(c):
                yield x


def canon_parsing_state(ps):
    f = ps.get_fields()
    f.pop('s', None)
    f.pop('latex_context', None)

    def fz(v):
        if isinstance(v, (list, tuple)):
            return tuple(fz(x) for x in v)
        if isinstance(v, dict):
            return tuple(sorted((k, fz(x)) for k, x in v.items()))
        if isinstance(v, (set, frozenset)):
            return tuple(sorted(v))
        return v
    fields = tuple(sorted((k, fz(v)) for k, v in f.items()))
    tables = (
        ('by_open', fz(ps._latex_group_delimchars_by_open)),
        ('close', fz(ps._latex_group_delimchars_close)),
        ('startchars', ''.join(sorted(set(ps._math_delims_info_startchars)))),
        ('by_len', tuple(sorted(fz(ps._math_all_delims_by_len), key=lambda x: (-len(x[0]), x)))),
        ('math_by_open', fz(ps._math_delims_info_by_open)),
        ('math_close', fz(ps._math_delims_close)),
        ('expect_close', fz(ps._math_expecting_close_delim_info) if ps._math_expecting_close_delim_info is not None else None),
    )
    return fields, tables
