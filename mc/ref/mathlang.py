# -*- coding: utf-8 -*-
r"""Reference recursive-descent parser for the math mini-language of C10:
alphabet  $ a { } space \( \) \[ \]   (DESIGN 4, C10 (b)).

Rules (from the documentation of ParsingState.math_mode_delimiter and the tokenizer doc):
 * when a formula is open and its closing delimiter is at the current position, that is
   the token read (so `$a$$b$` is two inline formulas); otherwise the longest delimiter
   matches (`$$` before `$`);
 * an opening delimiter opens a (possibly nested) formula; a closing-only delimiter that
   does not close the innermost open formula is an error; so is `}` without `{` and any
   construct left open at the end of input;
 * groups inherit the mode of their parent.
Output: whitespace-insensitive skeleton with (in_math, delimiter) per node, same format
as mc.docgen.skel_of_tree.
"""

OPEN = {'$': ('$', 'inline'), '$$': ('$$', 'display'), '\\(': ('\\)', 'inline'), '\\[': ('\\]', 'display')}
DELIMS2 = ['$$', '\\(', '\\)', '\\[', '\\]']


class Reject(Exception):
    pass


def _token(s, pos, mode):
    """Returns (kind, text, newpos) after skipping whitespace; kind in char/open/close/math/eof."""
    n = len(s)
    while pos < n and s[pos].isspace():
        pos += 1
    if pos >= n:
        return ('eof', '', pos)
    in_math, delim = mode
    if in_math and delim in OPEN:
        close = OPEN[delim][0]
        if s.startswith(close, pos):
            return ('math', close, pos + len(close))
    for d in DELIMS2:
        if s.startswith(d, pos):
            return ('math', d, pos + 2)
    c = s[pos]
    if c == '$':
        return ('math', '$', pos + 1)
    if c == '{':
        return ('open', c, pos + 1)
    if c == '}':
        return ('close', c, pos + 1)
    return ('char', c, pos + 1)


def _parse_list(s, pos, mode, stop):
    out = []
    while True:
        kind, text, npos = _token(s, pos, mode)
        if kind == 'eof':
            if stop is not None:
                raise Reject('unclosed %r' % (stop,))
            return tuple(out), npos
        if stop is not None and (kind, text) == stop:
            return tuple(out), npos
        if kind == 'char':
            if out and out[-1][0] == 'c':
                out[-1] = ('c', out[-1][1] + text, mode)
            else:
                out.append(('c', text, mode))
        elif kind == 'open':
            body, npos = _parse_list(s, npos, mode, ('close', '}'))
            out.append(('g', '{', '}', body, mode))
        elif kind == 'close':
            raise Reject('unexpected }')
        elif kind == 'math':
            if text not in OPEN:
                raise Reject('unexpected closing %s' % text)
            close, dtype = OPEN[text]
            body, npos = _parse_list(s, npos, (True, text), ('math', close))
            out.append(('m', dtype, text, close, body, mode))
        pos = npos


def parse(s):
    """Skeleton tuple, or raises Reject."""
    sk, _ = _parse_list(s, 0, (False, None), None)
    return sk
