# -*- coding: utf-8 -*-
"""Reference model of the documented UnicodeToLatexEncoder semantics (boring on purpose).

NFC; left to right; ASCII skipped when non_ascii_only; first matching rule in the given
order supplies (consumed, replacement); the rule's own protection takes precedence over
the global one; unmatched printable ASCII (and newline, CR, tab) copied; other unmatched
characters follow unknown_char_policy.
"""
import re
import unicodedata


class RefFail(Exception):
    pass


def protect(scheme, repl):
    if callable(scheme):
        return scheme(repl)
    if scheme == 'none':
        return repl
    ends_with_control_word = re.search(r'\\[^\W\d_]+$', repl, re.UNICODE) is not None
    if scheme == 'braces':
        return '{' + repl + '}' if ends_with_control_word else repl
    if scheme == 'braces-all':
        return '{' + repl + '}'
    if scheme == 'braces-almost-all':
        return '{' + repl + '}' if repl.startswith('\\') else repl
    if scheme == 'braces-after-macro':
        return repl + '{}' if ends_with_control_word else repl
    raise ValueError(scheme)


def unknown(policy, ch):
    if callable(policy):
        return policy(ch)
    if policy == 'keep':
        return ch
    if policy == 'replace':
        return '{\\bfseries ?}'
    if policy == 'ignore':
        return ''
    if policy == 'fail':
        raise RefFail(ch)
    if policy == 'unihex':
        return '\\ensuremath{\\langle}\\texttt{U+%s}\\ensuremath{\\rangle}' % (('%X' % ord(ch)).zfill(4))
    raise ValueError(policy)


def encode(s, rules, protection='braces', unknown_char_policy='keep', non_ascii_only=False):
    """rules: list of (matcher, own_protection); matcher(s, i) -> (consumed, repl) | None.
    Returns list of chunks."""
    s = unicodedata.normalize('NFC', s)
    out = []
    i = 0
    while i < len(s):
        ch = s[i]
        if non_ascii_only and ord(ch) < 127:
            out.append(ch)
            i += 1
            continue
        for matcher, own in rules:
            m = matcher(s, i)
            if m is not None:
                consumed, repl = m
                out.append(protect(own if own is not None else protection, repl))
                i += consumed
                break
        else:
            if 32 <= ord(ch) <= 126 or ch in '\n\r\t':
                out.append(ch)
            else:
                out.append(unknown(unknown_char_policy, ch))
            i += 1
    return out


def dict_matcher(d):
    def m(s, i):
        if ord(s[i]) in d:
            return (1, d[ord(s[i])])
        return None
    return m


def regex_matcher(pairs):
    def m(s, i):
        for rx, repl in pairs:
            mo = rx.match(s, i)
            if mo is not None:
                r = repl(mo) if callable(repl) else mo.expand(repl)
                return (mo.end() - mo.start(), r)
        return None
    return m
