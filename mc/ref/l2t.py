# -*- coding: utf-8 -*-
r"""Reference renderer for the core sub-language of latex2text (C03, C12): applies the documented
rules to a parsed node tree through its public attributes.

 text is copied; groups and formatting macros are transparent (braces kept iff keep_braced_groups
 and the content has >= 2 characters); symbols, accents and specials become their Unicode characters
 (table below, transcribed from the documentation strings of the default text database for the names
 used by the generator - not imported from it); unknown macros contribute nothing; comments vanish
 (leaving their post-space unless the 'after-comment' strictness is on) or are kept as '%'+text;
 whitespace-only chars nodes are dropped unless 'between-latex-constructs'; the post-space of a bare
 (argument-less) macro is re-inserted before following text unless 'between-macro-and-chars'; inline
 math is stripped and inlined, display math and math environments become indented blocks; inside
 formulas the 'in-equations' preset applies.
"""
import unicodedata

PRESETS = {
    'based-on-source': {'between-macro-and-chars': False, 'between-latex-constructs': False, 'after-comment': False, 'in-equations': None},
    'macros': {'between-macro-and-chars': True, 'between-latex-constructs': True, 'after-comment': False, 'in-equations': 'based-on-source'},
    'except-in-equations': {'between-macro-and-chars': True, 'between-latex-constructs': True, 'after-comment': True, 'in-equations': 'based-on-source'},
    True: {'between-macro-and-chars': True, 'between-latex-constructs': True, 'after-comment': True, 'in-equations': True},
}

SYMBOLS = {'alpha': 'α', 'o': 'ø', 'ss': 'ß', '&': '&', 'beta': 'β'}
ACCENTS = {"'": '́', '`': '̀', '^': '̂', '"': '̈', '~': '̃', 'c': '̧'}
FORMATTING = {'textbf', 'emph', 'textit', 'text', 'mbox', 'textrm'}
SPECIALS = {'~': ' ', '--': '–', '---': '—', '``': '“', "''": '”', '&': '   ', '\n\n': '\n\n'}
TRANSPARENT_ENVS = {'itemize', 'enumerate', 'foo'}
MATH_ENVS = {'equation', 'align', 'equation*'}


class Unsupported(Exception):
    """The tree contains a construct outside the core sub-language."""


def kind(n):
    return type(n).__name__


class Ref(object):
    def __init__(self, strict_latex_spaces='macros', math_mode='text', keep_braced_groups=False, keep_comments=False):
        self.sls = dict(PRESETS[strict_latex_spaces])
        self.math_mode = math_mode
        self.kbg = keep_braced_groups
        self.keep_comments = keep_comments

    def nodes(self, nl):
        if nl is None:
            return ''
        out = ''
        prev = None
        for n in nl:
            if n is None:
                prev = n
                continue
            if prev is not None and kind(prev) == 'LatexMacroNode' and self.bare(prev) and kind(n) == 'LatexCharsNode':
                if not self.sls['between-macro-and-chars']:
                    out += prev.macro_post_space
            out += self.node(n)
            prev = n
        return out

    def bare(self, m):
        a = m.nodeargd
        if a is None or a.argnlist is None:
            return True
        # bare = no arguments at all in the legacy view: a first optional followed by mandatory ones counts separately
        optarg, args = m.nodeoptarg, m.nodeargs
        return optarg is None and (args is None or len(args) == 0)

    def arg(self, a):
        if a is None:
            return ''
        if kind(a) == 'LatexGroupNode':
            return self.nodes(a.nodelist)
        if kind(a) == 'LatexNodeList':
            return self.nodes(a)
        return self.node(a)

    def node(self, n):
        k = kind(n)
        if k == 'LatexCharsNode':
            if not self.sls['between-latex-constructs'] and n.chars.strip() == '':
                return ''
            return n.chars
        if k == 'LatexCommentNode':
            if self.keep_comments:
                if self.sls['after-comment']:
                    return '%' + n.comment + ('\n' if n.comment_post_space != '' else '')
                return '%' + n.comment + n.comment_post_space
            return '' if self.sls['after-comment'] else n.comment_post_space
        if k == 'LatexGroupNode':
            c = self.nodes(n.nodelist)
            if self.kbg and len(c) >= 2:
                return n.delimiters[0] + c + n.delimiters[1]
            return c
        if k == 'LatexSpecialsNode':
            if n.specials_chars not in SPECIALS:
                raise Unsupported(n.specials_chars)
            return SPECIALS[n.specials_chars]
        if k == 'LatexMathNode':
            return self.math(n, n.displaytype == 'display', n.delimiters)
        if k == 'LatexEnvironmentNode':
            name = n.environmentname
            if name in MATH_ENVS:
                return self.math(n, True, ('\\begin{%s}' % name, '\\end{%s}' % name))
            if name in TRANSPARENT_ENVS:
                return self.nodes(n.nodelist)
            raise Unsupported(name)
        if k == 'LatexMacroNode':
            name = n.macroname
            args = list(n.nodeargd.argnlist) if (n.nodeargd is not None and n.nodeargd.argnlist) else []
            if name in FORMATTING:
                return ''.join(self.arg(a) for a in args)
            if name in SYMBOLS:
                return SYMBOLS[name]
            if name in ACCENTS:
                c = self.arg(args[0]).strip() if args else ' '
                return ''.join(unicodedata.normalize('NFC', ch + ACCENTS[name]) for ch in c)
            if name == 'frac':
                a = (args + [None, None])[:2]
                return self.arg(a[0]) + '/' + self.arg(a[1])
            if name == 'sqrt':
                a = (args + [None, None])[:2]
                return '√(' + self.arg(a[1]) + ')'
            if name == 'item':
                opt = args[0] if args else None
                return '\n  ' + (self.arg(opt) if opt is not None else '* ') if False else \
                    '\n  ' + (self.nodes([opt]) if opt is not None else '* ')
            if name in ('zz', 'label'):
                return ''      # not in the text database: discarded together with its arguments
            if name == 'hspace':
                return ''      # documented replacement: nothing
            if name == '\\':
                return '\n'
            raise Unsupported(name)
        raise Unsupported(k)

    def math(self, n, display, delims):
        if self.math_mode == 'verbatim':
            src = n.latex_verbatim()
            return '\n' + src + '\n' if display else src
        if self.math_mode == 'remove':
            return ''
        saved = self.sls
        ineq = saved['in-equations']
        if ineq is not None:
            self.sls = dict(PRESETS[ineq])
        try:
            content = self.nodes(n.nodelist).strip()
        finally:
            self.sls = saved
        if self.math_mode == 'with-delimiters':
            if display:
                return delims[0] + '\n' + content + '\n' + delims[1]
            return delims[0] + content + delims[1]
        # 'text'
        if display:
            return '\n    ' + content.replace('\n', '\n    ') + '\n'
        return content
