# -*- coding: utf-8 -*-
"""Bounded-exhaustive word enumeration over finite alphabets, sharded by prefix."""
import itertools

# raw characters (DESIGN 3.1)
SIGMA_R = ['a', ' ', '\n', '{', '}', '[', ']', '$', '\\', '%', '~', '*', '-']

# lexemes, simplest first
SIGMA_L = ['a', ' ', '\n\n', '{', '}', '[', ']', '$', '$$', '\\(', '\\)', '\\[', '\\]',
           '%c\n', '~', '\\alpha ', '\\textbf', '\\text', '\\frac', '\\sqrt', '\\section',
           '\\\\', '\\item', '\\begin{itemize}', '\\end{itemize}',
           '\\begin{equation}', '\\end{equation}', '\\verb', '\\begin{verbatim}', '\\end{verbatim}']

SIGMA_M = ['$', 'a', '{', '}', ' ', '\\(', '\\)', '\\[', '\\]']


def n_words(k, n):
    return sum(k ** i for i in range(n + 1))


def prefix_shards(alphabet, maxlen, prefix_len=2):
    """Shards = (prefix tuple of indices, complete?) such that their union is exactly the
    set of all words of length <= maxlen.  Words shorter than prefix_len form one shard."""
    k = len(alphabet)
    shards = []
    pl = min(prefix_len, maxlen)
    shards.append(('short', pl))      # all words of length < pl
    for pre in itertools.product(range(k), repeat=pl):
        shards.append(('pre', pre))
    return shards


def iter_shard(alphabet, maxlen, shard):
    """Yield index tuples of every word of the shard, shortest first."""
    k = len(alphabet)
    kind, x = shard
    if kind == 'short':
        for n in range(0, x):
            for w in itertools.product(range(k), repeat=n):
                yield w
    else:
        pre = tuple(x)
        for n in range(0, maxlen - len(pre) + 1):
            for suf in itertools.product(range(k), repeat=n):
                yield pre + suf


def render(alphabet, w):
    return ''.join(alphabet[i] for i in w)
