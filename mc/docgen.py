# -*- coding: utf-8 -*-
r"""
Document grammar: all derivations up to a size bound, rendered with bounded deviations.

A document is a list of items (the derivation).  The generator knows the tree it wrote, so
the expected structure (a whitespace-insensitive skeleton annotated with math/text modes),
the token boundaries (for fault injection) and lexical classes are known by construction;
no second parser is used as an oracle.

Item forms (plain tuples):
  ('T', text)                         letters
  ('G', (items))                      {...}
  ('Sym', name)                       argument-less macro (control word or control symbol)
  ('Call', name, (argvalues))         macro call; signature from SIGS[ctx]['macros'][name]
  ('Env', name, (argvalues), (items)) environment
  ('Math', open, (items))             $..$ \(..\) $$..$$ \[..\]
  ('Cmt', text)                       %text<newline>
  ('Spc', chars)                      specials
  ('Par',)                            blank line
  ('Verb', delim, text)               \verb<delim>text<delim>         (ctx D)
  ('VEnv', name, text)                verbatim-body environment
  ('NB', (items))                     [ ... ] nested bracket pair, only inside optional-argument content
  ('BOB',)                            {[}    only inside optional-argument content
Argument values per slot kind:
  'm':          ('grp', (items)) | ('tok', char) | ('cs', name)
  'o' / 'd':    None | ('opt', (items))
  'r' / 'any':  ('del', open, close, (items))
  's' / 't':    False | True
  'v':          ('v', open, close, text)

Deviations (DD mode): at most d insertions of ' ', '\\n' or '%c\\n' at declared token
boundaries.  Boundary classes: 'list' (between items of a node list and at its edges),
'arg-m' (before a mandatory argument), 'arg-o' (before an optional/star/delimited
argument: whitespace only), 'none' (no insertion: after \\verb, before verbatim arguments).
"""
import itertools

MATH_CLOSE = {'$': '$', '\\(': '\\)', '$$': '$$', '\\[': '\\]'}
MATH_TYPE = {'$': 'inline', '\\(': 'inline', '$$': 'display', '\\[': 'display'}


def _sl(kind, o=None, c=None, mode=None, nospace=False):
    return dict(kind=kind, open=o, close=c, mode=mode, nospace=nospace)


SIGS = {
    'A': {
        'macros': {
            'mm': [_sl('m')],
            'mo': [_sl('o', '[', ']'), _sl('m')],
            'ms': [_sl('s', '*'), _sl('m')],
            'mt': [_sl('t', '+'), _sl('m')],
            'mr': [_sl('r', '(', ')')],
            'md': [_sl('d', '<', '>'), _sl('m')],
            'mv': [_sl('v')],
            'mvb': [_sl('v', '(', ')')],
            'many': [_sl('any')],
            'mmix': [_sl('s', '*'), _sl('o', '[', ']'), _sl('m'), _sl('o', '[', ']'), _sl('m')],
            'mend': [_sl('m'), _sl('s', '*')],
            'mtx': [_sl('m', mode='text'), _sl('m')],
            'mmx': [_sl('m', mode='math'), _sl('m')],
            'mch': [_sl('m', mode='text')],
            'lvi': [_sl('o', '[', ']'), _sl('vl')],
            'lst': [dict(_sl('m'), legacy=True), _sl('s', '*'), _sl('o', '[', ']'), dict(_sl('m'), legacy=True)],
            'ltx': [dict(_sl('m', mode='text'), legacy=True), dict(_sl('m'), legacy=True)],      # args_math_mode=[False, None]
            'lmx': [dict(_sl('m', mode='math'), legacy=True), dict(_sl('m'), legacy=True)],      # args_math_mode=[True, None]      # declared through the pylatexenc-2 MacroStandardArgsParser
        },
        'envs': {
            'ea': dict(sig=[_sl('m')], body=None), 'eo': dict(sig=[_sl('o', '[', ']')], body=None),
            'ez': dict(sig=[], body=None), 'emath': dict(sig=[], body='math'),
        },
        'venvs': {'everb': 'body'},
        'specials': ['~', '--', '---'],
        'syms': ['mz', 'zz', 'setx'],  # zz is unknown: needs the fallback spec; setx returns an after-delta
        'unknown': ['zz'],
        'cs_args': ['mz'],
        'verb': False,
    },
    'D': {
        'macros': {
            'textbf': [_sl('m', mode='text')],
            'text': [_sl('m', mode='text')],
            'ensuremath': [_sl('m', mode='math')],
            'frac': [_sl('m'), _sl('m')],
            'sqrt': [_sl('o', '[', ']'), _sl('m')],
            'section': [_sl('s', '*'), _sl('o', '[', ']'), _sl('m')],
            '\\': [_sl('s', '*'), _sl('o', '[', ']', nospace=True)],
            'item': [_sl('o', '[', ']')],
            'cite': [_sl('s', '*'), _sl('o', '[', ']'), _sl('o', '[', ']'), _sl('m')],
            'newcommand': [_sl('s', '*'), _sl('m'), _sl('o', '[', ']'), _sl('o', '[', ']'), _sl('m')],
        },
        'envs': {
            'itemize': dict(sig=[_sl('o', '[', ']')], body=None),
            'equation': dict(sig=[], body='math'),
            'foo': dict(sig=[], body=None),     # unknown environment (fallback spec)
        },
        'venvs': {'verbatim': 'arg'},
        'specials': ['~', '---', '``', '&'],
        'syms': ['alpha', '&', '}'],     # \} : a control symbol whose name is a closing delimiter
        'unknown': [],
        'cs_args': ['alpha'],
        'verb': True,
    },
}
SIGS['A0'] = dict(SIGS['A'])
# core sub-language of the latex2text checks (default walker context)
SIGS['C'] = {
    'macros': {
        'textbf': [_sl('m', mode='text')],
        'emph': [_sl('m')],
        'frac': [_sl('m'), _sl('m')],
        'sqrt': [_sl('o', '[', ']'), _sl('m')],
        'item': [_sl('o', '[', ']')],
        'label': [_sl('m')],          # known to the walker, unknown to latex2text: discarded with its argument
        'hspace': [_sl('s', '*'), _sl('m')],      # text replacement is the empty string
        '\\': [_sl('s', '*'), _sl('o', '[', ']', nospace=True)],
    },
    'envs': {
        'itemize': dict(sig=[_sl('o', '[', ']')], body=None),
        'equation': dict(sig=[], body='math'),
        'foo': dict(sig=[], body=None),
    },
    'venvs': {},
    'specials': ['~', '--', '---', '``', "''", '&'],
    'syms': ['alpha', 'o', 'ss', '&'],
    'unknown': [],
    'cs_args': ['alpha'],
    'verb': False,
    'accents': ["'", '~'],
}

DEVIATIONS = [' ', '\n', '%c\n']


# --------------------------------------------------------------------------------------
# rendering

class Doc(object):
    __slots__ = ('items', 'ctx', 'text', 'skel', 'lex', 'valid', 'why_invalid', 'nb', 'bclass',
                 'devs', 'uses_unknown')

    def fault_points(self, want_math=False):
        """Character offsets of token boundaries outside verbatim text and comments (incl.
        start and end of the document) with the math flag of the position."""
        pts = {}
        pos = 0
        prev_math = False
        for lx in self.lex:
            if lx['kind'] != 'in':
                pts.setdefault(pos, lx['math_before'])
            pos += len(lx['text'])
            prev_math = lx['math_after']
        pts.setdefault(pos, False)
        if want_math:
            return sorted(pts.items())
        return sorted(pts)


class _R(object):
    def __init__(self, ctx, devs):
        self.ctx = ctx
        self.sig = SIGS[ctx]
        self.lex = []
        self.devs = devs or {}
        self.nb = 0
        self.bclass = []
        self.valid = True
        self.why = None
        self.math_depth = 0
        self.uses_unknown = False
        self.verb_extra = None

    def emit(self, text, kind='tok', cls=None, math_before=None, math_after=None):
        m = self.math_depth > 0
        self.lex.append(dict(kind=kind, text=text, cls=cls,
                             math_before=m if math_before is None else math_before,
                             math_after=m if math_after is None else math_after,
                             math=m))

    def invalid(self, why):
        if self.valid:
            self.valid = False
            self.why = why

    def boundary(self, cls):
        i = self.nb
        self.nb += 1
        self.bclass.append(cls)
        d = self.devs.get(i)
        if d:
            if cls == 'none':
                self.invalid('deviation at a no-insert boundary')
                return ''
            if '%' in d and cls == 'arg-o':
                self.invalid('comment before optional/star argument')
                return ''
            if d.startswith('%'):
                self.emit(d[:-1], 'dev', cls)
                self.emit('\n', 'in', cls)     # the comment's terminating newline (counts as whitespace run)
            else:
                self.emit(d, 'dev', cls)
            return d
        return ''


def _ends_with_control_word(t):
    i = len(t) - 1
    while i >= 0 and t[i].isalpha():
        i -= 1
    if i == len(t) - 1 or i < 0 or t[i] != '\\':
        return False
    n = 0
    while i >= 0 and t[i] == '\\':
        n += 1
        i -= 1
    return n % 2 == 1


def render(items, ctx, devs=None):
    """Returns a Doc.  devs: dict boundary index -> deviation string."""
    r = _R(ctx, devs)
    entries = _render_list(r, items, (False, None), 'top', False)
    d = Doc()
    d.items = items
    d.ctx = ctx
    out = []
    lex2 = []
    prev = ''
    for lx in r.lex:
        txt = lx['text']
        if lx['kind'] in ('tok', 'in', 'dev') and txt[:1].isalpha() and _ends_with_control_word(prev):
            sp = dict(kind='ws', text=' ', cls='necessity', math=lx['math'],
                      math_before=lx['math_before'], math_after=lx['math_before'])
            out.append(' ')
            lex2.append(sp)
            prev += ' '
        out.append(txt)
        lex2.append(lx)
        prev = (prev + txt)[-60:]
    d.text = ''.join(out)
    d.lex = lex2
    d.nb = r.nb
    d.bclass = r.bclass
    d.devs = dict(r.devs)
    d.uses_unknown = r.uses_unknown
    d.skel = _finish_list(entries)
    d.valid = r.valid
    d.why_invalid = r.why
    if d.valid:
        _check_lexical(d)
    return d


def _check_lexical(d):
    """Reject renderings that LaTeX's own lexical rules read differently (not deviations)."""
    lex = d.lex
    n = len(lex)
    i = 0

    def is_ws(lx):
        return lx['kind'] == 'ws' or (lx['kind'] == 'dev' and not lx['text'].startswith('%')) or \
            (lx['kind'] == 'in' and lx['text'] == '\n')
    while i < n:
        if is_ws(lex[i]):
            j = i
            run = ''
            ok = True
            while j < n and is_ws(lex[j]):
                run += lex[j]['text']
                if lex[j]['cls'] in ('arg-m', 'arg-o') or lex[j]['math']:
                    ok = False
                j += 1
            if run.count('\n') >= 2 and not ok:
                d.valid = False
                d.why_invalid = 'paragraph break in an argument gap or in a formula'
                return
            # a paragraph run directly before an argument gap token is fine (list level) only if the
            # next lexeme is not an argument: arguments always follow an 'arg-*' boundary, and an
            # undeviated gap has no whitespace, so nothing to do.
            i = j
        else:
            i += 1
    text = d.text
    # fused specials
    import re
    for m in re.finditer(r'-+', text):
        if len(m.group(0)) not in ((2, 3) if d.ctx != 'D' else (3,)):
            if not _inside_in(d, m.start()):
                d.valid = False
                d.why_invalid = 'fused dash specials'
                return
    for m in re.finditer(r"'+", text):
        if d.ctx == 'C' and len(m.group(0)) not in (1, 2) and not _inside_in(d, m.start()):
            d.valid = False
            d.why_invalid = 'fused quote specials'
            return
        if d.ctx == 'C' and len(m.group(0)) == 2 and text[m.start() - 1:m.start()] == '\\':
            d.valid = False       # \'' : accent followed by a quote, not a closing double quote
            d.why_invalid = 'accent macro fused with quote'
            return
    for m in re.finditer(r'`+', text):
        if len(m.group(0)) != 2 and not _inside_in(d, m.start()):
            d.valid = False
            d.why_invalid = 'fused quote specials'
            return


def _inside_in(d, pos):
    p = 0
    for lx in d.lex:
        q = p + len(lx['text'])
        if p <= pos < q:
            return lx['kind'] == 'in'
        p = q
    return False


# skeleton building: entries are skeleton nodes or ('ws', text, mode) markers; _finish_list
# merges whitespace runs, turns runs with >= 2 newlines into paragraph specials and merges
# adjacent chars.

def _finish_list(entries):
    out = []
    run = None
    run_mode = None
    for e in list(entries) + [('end',)]:
        if e[0] == 'ws':
            run = (run or '') + e[1]
            run_mode = e[2]
            continue
        if run is not None:
            if run.count('\n') >= 2:
                out.append(('S', '\n\n', (), run_mode))
            run = None
        if e[0] == 'end':
            break
        if e[0] == 'c' and out and out[-1][0] == 'c' and out[-1][2] == e[2]:
            out[-1] = ('c', out[-1][1] + e[1], e[2])
        else:
            out.append(e)
    return tuple(out)


def _dev_entries(d, mode):
    if d.startswith('%'):
        return [('%', d[1:-1], mode), ('ws', '\n', mode)]
    return [('ws', d, mode)]


def _render_list(r, items, mode, where, in_opt):
    entries = []
    d = r.boundary('list')
    if d:
        entries.extend(_dev_entries(d, mode))
    for it in items:
        entries.extend(_render_item(r, it, mode, in_opt))
        d = r.boundary('list')
        if d:
            entries.extend(_dev_entries(d, mode))
    return entries


def _render_item(r, it, mode, in_opt):
    k = it[0]
    sig = r.sig
    if k == 'T':
        r.emit(it[1])
        return [('c', it[1], mode)]
    if k == 'G':
        r.emit('{')
        inner = _render_list(r, it[1], mode, 'group', False)
        r.emit('}')
        return [('g', '{', '}', _finish_list(inner), mode)]
    if k == 'NB':
        r.emit('[')
        inner = _render_list(r, it[1], mode, 'group', in_opt)
        r.emit(']')
        if not in_opt:
            # outside optional-argument content brackets are ordinary characters
            return [('c', '[', mode)] + inner + [('c', ']', mode)]
        return [('g', '[', ']', _finish_list(inner), mode)]
    if k == 'Br':
        r.emit('[')
        r.emit('b')
        r.emit(']')
        if in_opt:
            return [('g', '[', ']', (('c', 'b', mode),), mode)]
        return [('c', '[b]', mode)]
    if k == 'BOB':
        r.emit('{')
        r.emit('[')
        r.emit('}')
        return [('g', '{', '}', (('c', '[', mode),), mode)]
    if k == 'Sym':
        r.emit('\\' + it[1])
        if it[1] in sig['unknown']:
            r.uses_unknown = True
        return [('M', it[1], (), mode)]
    if k == 'Acc':
        r.emit('\\' + it[1])
        r.boundary('arg-m')
        if it[2] == 'tok':
            r.emit('e')
            return [('M', it[1], (('c', 'e', mode),), mode)]
        r.emit('{')
        r.emit('e')
        r.emit('}')
        return [('M', it[1], (('g', '{', '}', (('c', 'e', mode),), mode),), mode)]
    if k == 'Cmt':
        r.emit('%' + it[1], 'tok')
        r.emit('\n', 'in', 'list')
        return [('%', it[1], mode), ('ws', '\n', mode)]
    if k == 'Spc':
        r.emit(it[1])
        return [('S', it[1], (), mode)]
    if k == 'Par':
        r.emit('\n\n', 'ws', 'list')
        return [('ws', '\n\n', mode)]
    if k == 'Verb':
        r.emit('\\verb')
        r.emit(it[1] + it[2] + it[1], 'in')
        return [('M', 'verb', (('c', it[2], mode),), mode, ('verbatim', it[2], (it[1], it[1])))]
    if k == 'VEnv':
        name, text = it[1], it[2]
        r.emit('\\begin{%s}' % name)
        r.emit(text + '\\end{%s}' % name, 'in')
        if sig['venvs'][name] == 'arg':
            return [('E', name, (('c', text, mode),), (), mode, ('verbatim', text, None))]
        return [('E', name, (), (('c', text, mode),), mode)]
    if k == 'Math':
        o = it[1]
        c = MATH_CLOSE[o]
        if o == '$' and not it[2]:
            r.invalid('empty $-formula is lexically the display delimiter $$')
        r.emit(o, math_after=True)
        r.math_depth += 1
        inner = _render_list(r, it[2], (True, o), 'math', False)
        r.math_depth -= 1
        r.emit(c, math_before=True)
        return [('m', MATH_TYPE[o], o, c, _finish_list(inner), mode)]
    if k == 'Call':
        name = it[1]
        slots = sig['macros'][name]
        r.emit('\\' + name)
        r.verb_extra = None
        args, trailing = _render_args(r, slots, it[2], mode, in_opt)
        if r.verb_extra is not None:
            extra, r.verb_extra = r.verb_extra, None
            return [('M', name, tuple(args), mode, extra)] + trailing
        return [('M', name, tuple(args), mode)] + trailing
    if k == 'Env':
        name = it[1]
        env = sig['envs'][name]
        r.emit('\\begin{%s}' % name)
        args, trailing = _render_args(r, env['sig'], it[2], mode, in_opt)
        bmode = (True, None) if env['body'] == 'math' else mode
        if env['body'] == 'math':
            r.math_depth += 1
        inner = trailing + _render_list(r, it[3], bmode, 'env', False)
        if env['body'] == 'math':
            r.math_depth -= 1
        r.emit('\\end{%s}' % name)
        return [('E', name, tuple(args), _finish_list(inner), mode)]
    raise ValueError('unknown item %r' % (it,))


def _arg_mode(slot, mode):
    if slot['mode'] == 'text':
        return (False, None)
    if slot['mode'] == 'math':
        if slot.get('legacy') and mode[0]:
            # pylatexenc-2 args_math_mode=True inside a formula: nothing changes, the delimiter of the formula stays recorded
            return mode
        return (True, None)
    return mode


def _render_args(r, slots, values, mode, in_opt=False):
    args = []
    trailing = []
    for slot, v in zip(slots, values):
        kind = slot['kind']
        amode = _arg_mode(slot, mode)
        md = 0
        if slot['mode'] == 'math':
            md = 1
        elif slot['mode'] == 'text':
            md = -r.math_depth
        if kind in ('s', 't'):
            if v:
                r.boundary('arg-o')
                r.emit(slot['open'])
                a = ('c', slot['open'], amode)
                args.append(('L', (a,), amode) if kind == 't' else a)
            else:
                args.append(None)
        elif kind in ('o', 'd'):
            if v is None:
                args.append(None)
            else:
                d = r.boundary('arg-o')
                if d and slot['nospace']:
                    # LaTeX's own rule for the line-break macro: no optional argument after whitespace;
                    # the brackets become ordinary characters of the enclosing list
                    args.append(None)
                    r.emit(slot['open'])
                    inner = _render_list(r, v[1], mode, 'group', in_opt)
                    r.emit(slot['close'])
                    trailing.extend(_dev_entries(d, mode))
                    if in_opt:
                        # inside optional-argument content brackets still pair up as a group
                        trailing.append(('g', slot['open'], slot['close'], _finish_list(inner), mode))
                    else:
                        trailing.append(('c', slot['open'], mode))
                        trailing.extend(inner)
                        trailing.append(('c', slot['close'], mode))
                    continue
                r.emit(slot['open'])
                r.math_depth += md
                # only content delimited by brackets pairs brackets up; in <...> they are ordinary characters
                inner = _render_list(r, v[1], amode, 'group', slot['open'] == '[')
                r.math_depth -= md
                r.emit(slot['close'])
                args.append(('g', slot['open'], slot['close'], _finish_list(inner), amode))
        elif kind in ('r', 'any'):
            r.boundary('arg-o')
            o, c = v[1], v[2]
            r.emit(o)
            inner = _render_list(r, v[3], amode, 'group', o == '[')
            r.emit(c)
            args.append(('g', o, c, _finish_list(inner), amode))
        elif kind == 'vl':
            o, c, text = v[1], v[2], v[3]
            r.emit(o + text + c, 'in')
            args.append(('c', text, amode))
            r.verb_extra = ('verbatim', text, (o, c))
        elif kind == 'v':
            o, c, text = v[1], v[2], v[3]
            r.emit(o + text + c, 'in')
            args.append(('g', o, c, (('c', text, amode),), amode))
        elif kind == 'm':
            r.boundary('arg-m')
            if v[0] == 'grp':
                r.emit('{')
                r.math_depth += md
                inner = _render_list(r, v[1], amode, 'group', False)
                r.math_depth -= md
                r.emit('}')
                args.append(('g', '{', '}', _finish_list(inner), amode))
            elif v[0] == 'tok':
                r.emit(v[1])
                args.append(('c', v[1], amode))
            elif v[0] == 'cs':
                r.emit('\\' + v[1])
                # a control sequence taken as a single-token argument: the pylatexenc-2 argument parser returns the bare
                # macro node (no argument record), the pylatexenc-3 parsers one with an empty argument record
                args.append(('M', v[1], None if slot.get('legacy') else (), amode))
        else:
            raise ValueError(kind)
    return args, trailing


# --------------------------------------------------------------------------------------
# enumeration of derivations

class Grammar(object):
    """Enumerates item lists of an exact total size.  Size of an item = 1 + sizes of the item
    lists nested in it (argument groups included); token / control-sequence arguments and
    empty lists cost nothing."""

    def __init__(self, ctx, cmax=99, calls=None, inert_verbatim=False, minimal=False):
        self.inert_verbatim = inert_verbatim
        self.minimal = minimal      # leaves: text and one symbol only (deep-nesting grammars)
        self.ctx = ctx
        self.sig = SIGS[ctx]
        self.calls = calls      # restrict to these macro/env names (None = all)
        self.cmax = cmax        # max number of non-default argument forms per call
        self._memo = {}

    # ---- leaves
    def leaves(self, math, in_opt, first, prev_t, br_first=False):
        sig = self.sig
        out = [('T', 'a')]
        if self.minimal:
            out = out + [('Sym', sig['syms'][0])]
            if in_opt and (first or prev_t):
                out.append(('BOB',))
            if (not in_opt) and (prev_t or (first and br_first)) and self.ctx != 'C':
                out.append(('Br',))
            return out
        for s in sig['syms']:
            if self.ctx == 'A0' or s not in sig['unknown'] or self.ctx == 'A':
                out.append(('Sym', s))
        for acc in sig.get('accents', []):
            out.append(('Acc', acc, 'tok'))
            out.append(('Acc', acc, 'grp'))
        out.append(('Cmt', 'c'))
        for s in sig['specials']:
            out.append(('Spc', s))
        if not math:
            out.append(('Par',))
            if sig['verb']:
                out.append(('Verb', '|', 'xy' if self.inert_verbatim else 'x{'))
            for name in sig['venvs']:
                out.append(('VEnv', name, 'xy' if self.inert_verbatim else 'x{%'))
        if in_opt and (first or prev_t):
            out.append(('BOB',))
        if (not in_opt) and (prev_t or (first and br_first)) and self.ctx != 'C':
            # bracketed text after text, outside optional-argument content: ordinary characters at any depth
            out.append(('Br',))
        return out

    def arg_value_menus(self, slots):
        """For each slot a list of (value template, number of holes); the first entry of each
        menu is the default form (optional absent, star absent, mandatory as group)."""
        menus = []
        prev_opt_absent = False
        for sl in slots:
            k = sl['kind']
            if k in ('s', 't'):
                menus.append([(False, 0), (True, 0)])
            elif k in ('o', 'd'):
                menus.append([(None, 0), (('opt', None), 1)])
            elif k == 'r':
                menus.append([(('del', sl['open'], sl['close'], None), 1)])
            elif k == 'any':
                menus.append([(('del', o, c, None), 1) for (o, c) in (('{', '}'), ('[', ']'), ('(', ')'), ('<', '>'))])
            elif k == 'vl':
                menus.append([(('v', '|', '|', 'xy' if self.inert_verbatim else 'x{'), 0), (('v', '+', '+', ''), 0)])
            elif k == 'v' and self.inert_verbatim:
                if sl['open']:
                    menus.append([(('v', sl['open'], sl['close'], 'xy'), 0)])
                else:
                    menus.append([(('v', '|', '|', 'xy'), 0), (('v', '+', '+', ''), 0)])
            elif k == 'v':
                if sl['open']:
                    menus.append([(('v', sl['open'], sl['close'], 'x{%'), 0), (('v', sl['open'], sl['close'], 'x(y)z'), 0)])
                else:
                    menus.append([(('v', '|', '|', 'x{%'), 0), (('v', '{', '}', 'x{y}z'), 0), (('v', '+', '+', ''), 0)])
            elif k == 'm':
                m = [(('grp', None), 1), (('tok', 'a'), 0)]
                for cs in self.sig['cs_args']:
                    m.append((('cs', cs), 0))
                menus.append(m)
        return menus

    def _valid_optional_pattern(self, slots, combo):
        # consecutive optional slots with the same delimiters: present flags must be prefix-closed
        for i in range(len(slots) - 1):
            a, b = slots[i], slots[i + 1]
            if a['kind'] in ('o', 'd') and b['kind'] in ('o', 'd') and a['open'] == b['open']:
                if combo[i][0] is None and combo[i + 1][0] is not None:
                    return False
        return True

    def shapes(self, math, in_opt, first, prev_t):
        """Item templates with holes: (builder(fills)->item, list of hole descriptors).
        hole descriptor = (math flag, in_opt flag)."""
        sig = self.sig
        out = []
        out.append((lambda f: ('G', f[0]), [(math, False, True)]))
        if in_opt and (first or prev_t):
            out.append((lambda f: ('NB', f[0]), [(math, True, False)]))
        if not math and not (self.minimal and self.calls is not None and 'MATH' not in self.calls):
            for o in ('$', '\\(', '$$', '\\['):
                out.append((lambda f, o=o: ('Math', o, f[0]), [(True, False, True)]))
        for name, slots in sorted(sig['macros'].items()):
            if self.calls is not None and name not in self.calls:
                continue
            if self.inert_verbatim and any(sl['kind'] == 'vl' for sl in slots):
                # fault documents: anything injected right after a \verb-like macro name becomes its verbatim
                # delimiter - that position is inside verbatim syntax, and the macro is left out
                continue
            menus = self.arg_value_menus(slots)
            for combo in itertools.product(*menus):
                if not self._valid_optional_pattern(slots, combo):
                    continue
                if sum(1 for mnu, c in zip(menus, combo) if c is not mnu[0]) > self.cmax:
                    continue
                holes = []
                for sl, (val, nh) in zip(slots, combo):
                    if nh:
                        amath = math
                        if sl['mode'] == 'text':
                            amath = False
                        elif sl['mode'] == 'math':
                            amath = True
                        holes.append((amath, sl['kind'] in ('o',) or (sl['kind'] == 'any' and val[1] == '['), sl['kind'] == 'm'))

                def build(f, name=name, combo=combo):
                    vals = []
                    fi = 0
                    for (val, nh) in combo:
                        if nh:
                            if val[0] == 'del':
                                vals.append(('del', val[1], val[2], f[fi]))
                            else:
                                vals.append((val[0], f[fi]))
                            fi += 1
                        else:
                            vals.append(val)
                    return ('Call', name, tuple(vals))
                out.append((build, holes))
        if not math:
            for name, env in sorted(sig['envs'].items()):
                if self.calls is not None and name not in self.calls:
                    continue
                menus = self.arg_value_menus(env['sig'])
                for combo in itertools.product(*menus):
                    if sum(1 for mnu, c in zip(menus, combo) if c is not mnu[0]) > self.cmax:
                        continue
                    holes = []
                    for sl, (val, nh) in zip(env['sig'], combo):
                        if nh:
                            holes.append((math, sl['kind'] == 'o', sl['kind'] == 'm'))
                    holes.append((env['body'] == 'math', False, False))

                    def build(f, name=name, combo=combo):
                        vals = []
                        fi = 0
                        for (val, nh) in combo:
                            if nh:
                                vals.append((val[0], f[fi]))
                                fi += 1
                            else:
                                vals.append(val)
                        return ('Env', name, tuple(vals), f[fi])
                    out.append((build, holes))
        return out

    def items(self, n, math, in_opt, first, prev_t, br_first=False):
        """All items of exact size n."""
        key = ('i', n, math, in_opt, first and (in_opt or br_first), prev_t, br_first and first)
        if key in self._memo:
            return self._memo[key]
        res = []
        if n == 1:
            res.extend(self.leaves(math, in_opt, first, prev_t, br_first))
        for build, holes in self.shapes(math, in_opt, first, prev_t):
            # distribute n-1 over the holes
            for sizes in _compositions(n - 1, len(holes)):
                lists = [self.lists(sz, hm, ho, hb) for sz, (hm, ho, hb) in zip(sizes, holes)]
                for fills in itertools.product(*lists):
                    res.append(build(fills))
        self._memo[key] = res
        return res

    def lists(self, n, math, in_opt, br_first=False):
        """All item lists of exact total size n (tuples)."""
        key = ('l', n, math, in_opt, br_first)
        if key in self._memo:
            return self._memo[key]
        res = self._lists(n, math, in_opt, True, False, br_first)
        self._memo[key] = res
        return res

    def _lists(self, n, math, in_opt, first, prev_t, br_first=False):
        if n == 0:
            return [()]
        res = []
        for i in range(1, n + 1):
            for it in self.items(i, math, in_opt, first, prev_t, br_first):
                if prev_t and it[0] == 'T':
                    continue        # adjacent text is one text item
                for rest in self._lists(n - i, math, in_opt, False, it[0] in ('T', 'Br'), br_first):
                    res.append((it,) + rest)
        return res


def _iter_lists_lazy(self, n, first=True, prev_t=False):
    if n == 0:
        yield ()
        return
    for i in range(1, n + 1):
        for it in self.items(i, False, False, first, prev_t):
            if prev_t and it[0] == 'T':
                continue
            if n - i <= 3:
                rests = self._lists(n - i, False, False, False, it[0] == 'T')
            else:
                rests = _iter_lists_lazy(self, n - i, False, it[0] == 'T')
            for rest in rests:
                yield (it,) + rest


Grammar.iter_lists_lazy = _iter_lists_lazy


def _compositions(n, k):
    """All k-tuples of non-negative integers summing to n."""
    if k == 0:
        if n == 0:
            yield ()
        return
    if k == 1:
        yield (n,)
        return
    for i in range(n + 1):
        for rest in _compositions(n - i, k - 1):
            yield (i,) + rest


def bracket_under_nested_pair(items, in_nb=False, shielded=False):
    """True iff the derivation has a bracket character inside a braces group / mandatory argument that sits
    inside a *nested* bracket pair of optional-argument content (e.g. [[{[}]]).  Used to tag a recorded finding."""
    for it in items:
        k = it[0]
        if k in ('BOB', 'Br') and in_nb and (shielded or k == 'BOB'):
            return True
        if k == 'NB':
            if bracket_under_nested_pair(it[1], True, False):
                return True
        elif k == 'G':
            if bracket_under_nested_pair(it[1], in_nb, True):
                return True
        elif k == 'Math':
            if bracket_under_nested_pair(it[2], in_nb, shielded):
                return True
        elif k in ('Call', 'Env'):
            for v in it[2]:
                if isinstance(v, tuple) and v and v[0] in ('grp', 'opt', 'del') and isinstance(v[-1], tuple):
                    if bracket_under_nested_pair(v[-1], in_nb, shielded or v[0] == 'grp'):
                        return True
            if k == 'Env' and bracket_under_nested_pair(it[3], in_nb, shielded):
                return True
    return False


# --------------------------------------------------------------------------------------
# deviation vectors

def deviation_vectors(nb, d, kinds=DEVIATIONS):
    """All assignments of at most d deviations to nb boundaries (dicts)."""
    yield {}
    for m in range(1, d + 1):
        for idxs in itertools.combinations(range(nb), m):
            for ks in itertools.product(kinds, repeat=m):
                yield dict(zip(idxs, ks))


# --------------------------------------------------------------------------------------
# actual skeleton from a parsed tree (whitespace-insensitive, with modes)

def _nows(s):
    return ''.join(ch for ch in s if not ch.isspace())


def _mode(n):
    ps = getattr(n, 'parsing_state', None)
    if ps is None:
        return None
    return (bool(ps.in_math_mode), ps.math_mode_delimiter)


def _is_verbatim_chars(n):
    ps = getattr(n, 'parsing_state', None)
    return ps is not None and not ps.enable_macros and not ps.enable_groups and not ps.enable_comments


def skel_of_tree(nl):
    return _sk_list(nl)


def _sk_list(nl):
    if nl is None:
        return None
    out = []
    for n in nl:
        e = _sk_node(n)
        if e is None:
            continue
        if e[0] == 'c' and out and out[-1][0] == 'c' and out[-1][2] == e[2]:
            out[-1] = ('c', out[-1][1] + e[1], e[2])
        else:
            out.append(e)
    return tuple(out)


def _sk_args(nodeargd, verbatim_parent=False):
    if nodeargd is None:
        return None
    al = getattr(nodeargd, 'argnlist', None)
    if al is None:
        return None
    return tuple(_sk_arg(a, verbatim_parent) for a in al)


def _sk_arg(a, verbatim_parent=False):
    from mc.canon import kind_of
    if a is None:
        return None
    k = kind_of(a)
    if k == 'list':
        return ('L', tuple(_sk_node(x, exact=True) for x in a), _mode(a))
    return _sk_node(a, exact=True, verbatim_parent=verbatim_parent)


def _sk_node(n, exact=False, verbatim_parent=False):
    from mc.canon import kind_of
    k = kind_of(n)
    m = _mode(n)
    if k == 'none':
        return ('none',)
    if k == 'chars':
        if exact or _is_verbatim_chars(n):
            mm = m
            return ('c', n.chars, mm)
        t = _nows(n.chars)
        if t == '':
            return None
        return ('c', t, m)
    if k == 'comment':
        return ('%', n.comment, m)
    if k == 'group':
        return ('g', n.delimiters[0], n.delimiters[1], _sk_list(n.nodelist), m)
    if k == 'math':
        return ('m', n.displaytype, n.delimiters[0], n.delimiters[1], _sk_list(n.nodelist), m)
    if k == 'macro':
        e = ('M', n.macroname, _sk_args(n.nodeargd), m)
        if hasattr(n.nodeargd, 'verbatim_text'):
            e = e + (('verbatim', n.nodeargd.verbatim_text, _t(n.nodeargd.verbatim_delimiters)),)
        return e
    if k == 'specials':
        return ('S', n.specials_chars, _sk_args(n.nodeargd), m)
    if k == 'environment':
        e = ('E', n.environmentname, _sk_args(n.nodeargd), _sk_list(n.nodelist), m)
        if hasattr(n.nodeargd, 'verbatim_text'):
            e = e + (('verbatim', n.nodeargd.verbatim_text, _t(n.nodeargd.verbatim_delimiters)),)
        return e
    return ('?', k)


def _t(x):
    return tuple(x) if isinstance(x, (list, tuple)) else x


def strip_modes(sk):
    """Remove the mode annotations from a skeleton (C02 compares structure only)."""
    if sk is None:
        return None
    if isinstance(sk, tuple) and sk and isinstance(sk[0], str):
        k = sk[0]
        if k == 'c':
            return ('c', sk[1])
        if k == '%':
            return ('%', sk[1])
        if k == 'g':
            return ('g', sk[1], sk[2], strip_modes(sk[3]))
        if k == 'm':
            return ('m', sk[1], sk[2], sk[3], strip_modes(sk[4]))
        if k == 'M':
            return ('M', sk[1], strip_modes(sk[2])) + tuple(sk[4:])
        if k == 'S':
            return ('S', sk[1], strip_modes(sk[2]))
        if k == 'E':
            return ('E', sk[1], strip_modes(sk[2]), strip_modes(sk[3])) + tuple(sk[5:])
        if k == 'L':
            return ('L', strip_modes(sk[1]))
        return sk
    if isinstance(sk, tuple):
        return tuple(strip_modes(x) for x in sk)
    return sk


def drop_verbatim_chars_modes(sk):
    return sk


# --------------------------------------------------------------------------------------
# profiles, shards

PROFILES = {
    'quick': [
        dict(ctx='A', size=1, cmax=99, d=2),
        dict(ctx='D', size=1, cmax=99, d=2),
        dict(ctx='A', size=2, cmax=99, d=0),
        dict(ctx='D', size=2, cmax=99, d=0),
        dict(ctx='A0', size=2, cmax=99, d=0),
        dict(ctx='A', size=2, cmax=1, d=1),
        dict(ctx='D', size=2, cmax=1, d=1),
        dict(ctx='A', size=3, cmax=0, d=0),
        dict(ctx='D', size=3, cmax=0, d=0),
        # deep nesting of a few calls (optional / delimited arguments inside arguments inside arguments)
        dict(ctx='A', size=4, cmax=1, d=0, calls=['mo', 'mm'], minimal=True),
        dict(ctx='D', size=4, cmax=1, d=0, calls=['sqrt', 'textbf'], minimal=True),
    ],
    'thorough': [
        dict(ctx='A', size=1, cmax=99, d=3),
        dict(ctx='D', size=1, cmax=99, d=3),
        dict(ctx='A', size=2, cmax=99, d=1),
        dict(ctx='D', size=2, cmax=99, d=1),
        dict(ctx='A0', size=2, cmax=99, d=1),
        dict(ctx='A', size=2, cmax=0, d=2),
        dict(ctx='D', size=2, cmax=0, d=2),
        dict(ctx='A', size=3, cmax=1, d=0),
        dict(ctx='D', size=3, cmax=1, d=0),
        dict(ctx='A', size=3, cmax=0, d=1),
        dict(ctx='D', size=3, cmax=0, d=1),
        dict(ctx='A', size=4, cmax=0, d=0),
        dict(ctx='D', size=4, cmax=0, d=0),
        dict(ctx='A', size=5, cmax=1, d=0, calls=['mo', 'mm'], minimal=True),
        dict(ctx='D', size=5, cmax=1, d=0, calls=['sqrt', 'textbf'], minimal=True),
    ],
}
NSLICES = 48
_DOCLISTS = {}


def doc_lists(prof):
    """Materialised list of all derivations of the profile (sizes <= 3)."""
    key = (prof['ctx'], prof['size'], prof['cmax'], prof.get('inert', False), tuple(prof.get('calls') or ()), prof.get('minimal', False))
    if key not in _DOCLISTS:
        g = Grammar(prof['ctx'], cmax=prof['cmax'], inert_verbatim=prof.get('inert', False),
                    calls=set(prof['calls']) if prof.get('calls') else None, minimal=prof.get('minimal', False))
        L = []
        for n in range(0, prof['size'] + 1):
            L.extend(g.lists(n, False, False))
        _DOCLISTS[key] = L
    return _DOCLISTS[key]


def iter_doc_slice(prof, k):
    """The k-th of NSLICES slices of the profile's derivations (index modulo NSLICES)."""
    if prof['size'] <= 3 or (prof.get('minimal') and prof['size'] <= 4):
        L = doc_lists(prof)
        for idx in range(k, len(L), NSLICES):
            yield L[idx]
        return
    # large profiles: enumerate the top level lazily (nested lists of size <= 3 are memoised)
    g = Grammar(prof['ctx'], cmax=prof['cmax'], inert_verbatim=prof.get('inert', False),
                calls=set(prof['calls']) if prof.get('calls') else None, minimal=prof.get('minimal', False))
    idx = 0
    for n in range(0, prof['size'] + 1):
        for items in g.iter_lists_lazy(n):
            if idx % NSLICES == k:
                yield items
            idx += 1


FAULT_PROFILES = {
    # verbatim text is inert here: an injected delimiter must not be able to pair up with
    # an unbalanced delimiter hidden in verbatim text that a changed tokenisation re-reads
    'quick': [dict(ctx='A', size=1, cmax=99, d=0, inert=True), dict(ctx='D', size=1, cmax=99, d=0, inert=True),
              dict(ctx='A', size=2, cmax=1, d=0, inert=True), dict(ctx='D', size=2, cmax=1, d=0, inert=True)],
    'thorough': [dict(ctx='A', size=2, cmax=99, d=0, inert=True), dict(ctx='D', size=2, cmax=99, d=0, inert=True),
                 dict(ctx='A', size=3, cmax=0, d=0, inert=True), dict(ctx='D', size=3, cmax=0, d=0, inert=True)],
}
PREFIX_PROFILES = {
    'quick': [dict(ctx='A', size=1, cmax=99, d=0), dict(ctx='D', size=1, cmax=99, d=0),
              dict(ctx='A', size=2, cmax=0, d=0), dict(ctx='D', size=2, cmax=0, d=0)],
    'thorough': [dict(ctx='A', size=2, cmax=1, d=0), dict(ctx='D', size=2, cmax=1, d=0),
                 dict(ctx='A', size=3, cmax=0, d=0), dict(ctx='D', size=3, cmax=0, d=0)],
}


def profiles(tier, purpose=None):
    ps = PROFILES[tier]
    if purpose == 'faults':
        return FAULT_PROFILES[tier]
    if purpose == 'prefix':
        return PREFIX_PROFILES[tier]
    if purpose in ('faults', 'prefix'):
        # structure-only purposes: no deviations
        seen = set()
        out = []
        for p in ps:
            key = (p['ctx'], p['size'], p['cmax'])
            if key in seen or p['ctx'] == 'A0':
                continue
            seen.add(key)
            out.append(dict(p, d=0))
        return out
    return ps


def shards(tier, purpose=None):
    out = []
    for pi, p in enumerate(profiles(tier, purpose)):
        for k in range(NSLICES):
            out.append((pi, k))
    return out


def describe(tier, purpose=None):
    parts = []
    for p in profiles(tier, purpose):
        parts.append('ctx %s%s: all derivations of size <= %d with <= %s non-default argument forms per call, '
                     'x all placements of <= %d whitespace/comment deviations'
                     % (p['ctx'], (' restricted to calls %s and minimal leaves' % ','.join(p['calls'])) if p.get('calls') else '',
                        p['size'], p['cmax'] if p['cmax'] < 99 else 'any number of', p['d']))
    return 'generated documents (mc/docgen.py): ' + '; '.join(parts)


def _is_closed(it):
    k = it[0]
    if k in ('G', 'Math', 'Env', 'Verb', 'VEnv'):
        return True
    if k == 'Call':
        vals = it[2]
        if not vals:
            return False
        v = vals[-1]
        return isinstance(v, tuple) and v[0] in ('grp', 'del', 'v', 'opt')
    return False


def iter_shard(tier, shard, purpose=None):
    pi, k = shard
    p = profiles(tier, purpose)[pi]
    for items in iter_doc_slice(p, k):
        if purpose == 'prefix' and not (items and _is_closed(items[-1])):
            continue
        base = render(items, p['ctx'])
        if p['d'] == 0:
            if base.valid:
                yield base
            continue
        for dv in deviation_vectors(base.nb, p['d']):
            if not dv:
                if base.valid:
                    yield base
                continue
            d = render(items, p['ctx'], dv)
            if d.valid:
                yield d
