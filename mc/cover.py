# -*- coding: utf-8 -*-
"""C01 oracle: pure invariants on a returned node tree (no reference parser)."""
import re
from mc.canon import kind_of


def _children(n):
    """(args list (present ones, slot order), body list or None)"""
    args = []
    nodeargd = getattr(n, 'nodeargd', None)
    if nodeargd is not None:
        al = getattr(nodeargd, 'argnlist', None)
        if al:
            for a in al:
                if a is not None:
                    args.append(a)
    body = None
    k = kind_of(n)
    if k in ('group', 'math', 'environment'):
        body = n.nodelist
    return args, body


def _flatten(x):
    """An argument may be a node or a node list; yield the node(s)."""
    k = kind_of(x)
    if k in ('list', 'pylist'):
        return [c for c in (x.nodelist if k == 'list' else x)]
    return [x]


def check_tree(s, nodelist, strict=True):
    """Return list of (kind, detail) problems.  strict=False: range/nesting only."""
    probs = []
    L = len(s)
    if nodelist is None:
        return [('result-none', None)] if strict else []
    top = list(nodelist.nodelist if kind_of(nodelist) == 'list' else nodelist)

    if strict:
        if any(n is None for n in top):
            probs.append(('none-node-in-strict-tree', None))
            top = [n for n in top if n is not None]
        if L and not top:
            probs.append(('empty-tree-for-nonempty-input', None))
        if top:
            if top[0].pos != 0:
                probs.append(('top-gap-at-start', top[0].pos))
            if top[-1].pos_end != L:
                probs.append(('top-gap-at-end', (top[-1].pos_end, L)))
            for a, b in zip(top, top[1:]):
                if a.pos_end != b.pos:
                    probs.append(('top-not-contiguous', (a.pos_end, b.pos)))
            try:
                v = ''.join(n.latex_verbatim() for n in top)
                if v != s:
                    probs.append(('verbatim-concat-differs', v))
                if kind_of(nodelist) == 'list' and nodelist.latex_verbatim() != s:
                    probs.append(('nodelist-verbatim-differs', nodelist.latex_verbatim()))
            except Exception as e:
                probs.append(('latex_verbatim-raises', type(e).__name__))
        if kind_of(nodelist) == 'list':
            _check_listspan(nodelist, probs, L)

    for n in top:
        if n is not None:
            _check_node(s, n, 0, L, strict, probs)
    return probs


def _check_listspan(nl, probs, L):
    items = [c for c in nl.nodelist if c is not None]
    if items:
        if nl.pos != items[0].pos or nl.pos_end != items[-1].pos_end:
            probs.append(('nodelist-span', (nl.pos, nl.pos_end, items[0].pos, items[-1].pos_end)))
    else:
        if nl.pos is not None and not (0 <= nl.pos <= L):
            probs.append(('nodelist-span-range', (nl.pos, nl.pos_end)))


def _check_node(s, n, lo, hi, strict, probs):
    k = kind_of(n)
    L = len(s)
    pos, pos_end = n.pos, n.pos_end
    if not (isinstance(pos, int) and isinstance(pos_end, int)) or not (0 <= pos <= pos_end <= L):
        probs.append(('range', (k, pos, pos_end, L)))
        return
    if not (lo <= pos and pos_end <= hi):
        probs.append(('outside-parent', (k, pos, pos_end, lo, hi)))
    src = s[pos:pos_end]
    if strict:
        if k == 'chars':
            if n.chars != src:
                probs.append(('chars-differ-from-slice', (n.chars, src)))
        elif k == 'comment':
            if '%' + n.comment + n.comment_post_space != src:
                probs.append(('comment-differs-from-slice', (n.comment, n.comment_post_space, src)))
        elif k == 'macro':
            head = '\\' + n.macroname
            if not src.startswith(head):
                probs.append(('macro-head', (n.macroname, src)))
            else:
                ps = n.macro_post_space or ''
                if src[len(head):len(head) + len(ps)] != ps or ps.strip() != '':
                    probs.append(('macro-post-space', (ps, src)))
                else:
                    # a call none of whose arguments was written stands for its name and recorded post-space only:
                    # whitespace after it that is not recorded belongs to what follows (not demanded at the very end of the
                    # input, where a verbatim argument that is cut off by the end of the stream is reported as absent)
                    al = getattr(getattr(n, 'nodeargd', None), 'argnlist', None)
                    if (not al or all(a is None for a in al)) and getattr(getattr(n, 'nodeargd', None), 'verbatim_text', None) is None \
                            and src != head + ps and pos_end < L:
                        probs.append(('argumentless-macro-span', (n.macroname, ps, src)))
        elif k == 'specials':
            if n.specials_chars == '\n\n':
                # paragraph break: spans first..last newline of a whitespace run
                if src.strip() != '' or src.count('\n') < 2:
                    probs.append(('specials-head', (n.specials_chars, src)))
            elif not src.startswith(n.specials_chars):
                probs.append(('specials-head', (n.specials_chars, src)))
        elif k in ('group', 'math'):
            d = n.delimiters
            if d is None or len(d) != 2 or d[0] is None or d[1] is None:
                probs.append(('delimiters-missing', (k, d)))
            elif not (src.startswith(d[0]) and src.endswith(d[1]) and len(src) >= len(d[0]) + len(d[1])):
                probs.append(('delimiters-not-at-ends', (k, tuple(d), src)))
        elif k == 'environment':
            if not src.startswith('\\begin'):
                probs.append(('environment-head', src))
            if not re.search(r'\\end\s*\{' + re.escape(n.environmentname) + r'\}$', src):
                probs.append(('environment-tail', (n.environmentname, src)))

    args, body = _children(n)
    cur = pos
    inner_lo, inner_hi = pos, pos_end
    for a in args:
        for c in _flatten(a):
            if c is None:
                continue
            if c.pos is None or c.pos_end is None:
                probs.append(('range', (kind_of(c), c.pos, c.pos_end, L)))
                continue
            if strict and c.pos < cur:
                probs.append(('children-overlap-or-disorder', (k, cur, c.pos)))
            cur = max(cur, c.pos_end)
            _check_node(s, c, inner_lo, inner_hi, strict, probs)
    if body is not None:
        items = [c for c in body]
        if strict and any(c is None for c in items):
            probs.append(('none-node-in-strict-tree', k))
        items = [c for c in items if c is not None]
        if strict and kind_of(body) == 'list':
            _check_listspan(body, probs, L)
        if strict and k in ('group', 'math') and n.delimiters and n.delimiters[0] is not None \
           and n.delimiters[1] is not None:
            b_lo = pos + len(n.delimiters[0])
            b_hi = pos_end - len(n.delimiters[1])
            if items:
                if items[0].pos != b_lo or items[-1].pos_end != b_hi:
                    probs.append(('body-does-not-tile-between-delimiters',
                                  (k, b_lo, b_hi, items[0].pos, items[-1].pos_end)))
            elif b_lo != b_hi:
                probs.append(('body-does-not-tile-between-delimiters', (k, b_lo, b_hi, None, None)))
        prev = None
        for c in items:
            if c.pos is None or c.pos_end is None:
                probs.append(('range', (kind_of(c), c.pos, c.pos_end, L)))
                continue
            if strict:
                if c.pos < cur:
                    probs.append(('children-overlap-or-disorder', (k, cur, c.pos)))
                if prev is not None and prev.pos_end != c.pos:
                    probs.append(('body-not-contiguous', (k, prev.pos_end, c.pos)))
            cur = max(cur, c.pos_end)
            prev = c
            _check_node(s, c, inner_lo, inner_hi, strict, probs)
