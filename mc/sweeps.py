# -*- coding: utf-8 -*-
"""Shared bounded-exhaustive input spaces for the parser sweeps (C01, C05, C06, C07, C19)."""
from mc import words, contexts

SIGMA_X = ['a', ' ', '{', '}', '[', ']', '*', '+', '(', ')', '<', '>', '^', '%', '\n', '{a}']


def shards(spec):
    """spec: dict(R=N or None, L=N or None, A=K or None) -> list of shard descriptors."""
    out = []
    if spec.get('R') is not None:
        out += [('R', 'D', sh) for sh in words.prefix_shards(words.SIGMA_R, spec['R'], 2)]
    if spec.get('L') is not None:
        out += [('L', 'D', sh) for sh in words.prefix_shards(words.SIGMA_L, spec['L'], 2 if spec['L'] >= 3 else 1)]
    if spec.get('A') is not None:
        for (mname, _) in contexts.CTXA_MACROS:
            for sh in words.prefix_shards(SIGMA_X, spec['A'], 1):
                out.append(('A', mname, sh))
    if spec.get('Z') is not None:
        out += [('Z', 'A0', sh) for sh in words.prefix_shards(SIGMA_Z, spec['Z'], 1)]
    if spec.get('CR') is not None:
        out += [('CR', 'D', sh) for sh in words.prefix_shards(SIGMA_CR, spec['CR'], 1)]
    if spec.get('E') is not None:
        out += [('E', 'D', sh) for sh in words.prefix_shards(SIGMA_E, spec['E'], 1)]
    return out


# malformed / cut-off environment tokens: \begin and \end without a readable {name}, next to whole ones
SIGMA_E = ['a', ' ', '{', '}', '$', '\\begin', '\\end', '\\begin{', '\\end {', 'itemize', '\\begin{itemize}', '\\end{itemize}',
           '\\item', '\\begin{a$b', '\\textbf', '\n']


# carriage returns / CRLF line ends / tabs next to comments, macros, paragraph breaks and groups
SIGMA_CR = ['a', '\r', '\n', '\r\n', ' ', '\t', '%', '\\', '{', '}', '[', ']', '$']


# custom context WITHOUT unknown-macro / unknown-environment fallback: unknown names in every position
SIGMA_Z = ['a', ' ', '{', '}', '[', ']', '\\mm', '\\mo', '\\zz', '\\begin{zz}', '\\end{zz}', '\\begin{ea}', '\\end{ea}', '$']


def iter_shard(spec, shard):
    """Yield (input string, context name)."""
    space, x, sh = shard
    if space == 'R':
        for w in words.iter_shard(words.SIGMA_R, spec['R'], sh):
            yield words.render(words.SIGMA_R, w), 'D'
    elif space == 'L':
        for w in words.iter_shard(words.SIGMA_L, spec['L'], sh):
            yield words.render(words.SIGMA_L, w), 'D'
    elif space == 'Z':
        for w in words.iter_shard(SIGMA_Z, spec['Z'], sh):
            yield words.render(SIGMA_Z, w), 'A0'
    elif space == 'CR':
        for w in words.iter_shard(SIGMA_CR, spec['CR'], sh):
            yield words.render(SIGMA_CR, w), 'D'
    elif space == 'E':
        for w in words.iter_shard(SIGMA_E, spec['E'], sh):
            yield words.render(SIGMA_E, w), 'D'
    elif space == 'A':
        head = '\\' + x
        for w in words.iter_shard(SIGMA_X, spec['A'], sh):
            yield head + words.render(SIGMA_X, w), 'A'
            # the same call as the last thing inside a group: an enclosing closing brace cuts the arguments short
            yield '{' + head + words.render(SIGMA_X, w), 'A'


def describe(spec):
    parts = []
    if spec.get('R') is not None:
        parts.append('all words of length <= %d over the 13 raw characters %r (default context)'
                     % (spec['R'], ''.join(words.SIGMA_R)))
    if spec.get('L') is not None:
        parts.append('all words of length <= %d over the 30 lexemes (default context)' % spec['L'])
    if spec.get('A') is not None:
        parts.append('for each of the %d macros of the custom all-argument-types context, the macro followed by '
                     'all words of length <= %d over the 15 argument characters and the lexeme {a}, at top level and after an opening brace' % (len(contexts.CTXA_MACROS), spec['A']))
    if spec.get('Z') is not None:
        parts.append('all words of length <= %d over 14 lexemes incl. unknown macro/environment names under the custom context '
                     'without unknown-macro fallback' % spec['Z'])
    if spec.get('CR') is not None:
        parts.append('all words of length <= %d over 13 lexemes with carriage return, CRLF and tab (default context)' % spec['CR'])
    if spec.get('E') is not None:
        parts.append('all words of length <= %d over %d lexemes with cut-off \\begin / \\end tokens (default context)' % (spec['E'], len(SIGMA_E)))
    return '; '.join(parts)
