#!/bin/bash
# usage: tools/run_all.sh [quick|thorough]   - every registered check in turn, then validates manifest and evidence
cd /verif
TIER=${1:-quick}
RC=0
for c in C01 C02 C03 C04 C05 C06 C07 C08 C09 C10 C11 C12 C13 C14 C15 C16 C17 C18 C19 C20; do
  S=$(date +%s)
  OUT=$(./check $c --tier $TIER 2>&1); R=$?
  echo "$OUT" | grep -E "^(VIOLATION|HARNESS-ERROR|KNOWN-FINDING|C[0-9]+ tier)" | cut -c1-220
  echo "   -> $c exit=$R wall=$(( $(date +%s) - S ))s"
  [ $R -ne 0 ] && RC=1
done
python3-vt tools/gen_manifest.py
exit $RC
