#!/bin/bash
# For every "fixed:" entry of known_findings.json: revert that fix in a scratch worktree of /repo's HEAD, run the
# property's quick check against it (VERIF_REPO) and keep the replay files of the violations it reports under
# /verif/regressions/.  Shows that each check still detects the defect it is credited with, and provides the
# stored counterexamples that tests/test_regressions.py replays (without the explorer) on the current tree.
cd /verif
mkdir -p regressions
: > regressions/INDEX.txt
/venv/bin/python - <<'PY' > /tmp/verif_fixed_list.txt
import json, re
k = json.load(open('/verif/known_findings.json'))
for f in k['fixed']:
    m = re.match(r'fixed: property=(C\d+) ([0-9a-f]{7})', f)
    print(m.group(1), m.group(2))
PY
while read PROP COMMIT; do
  WT=/tmp/wt_rev_$COMMIT
  git -C /repo worktree add -q $WT main --detach || continue
  if ! git -C $WT revert --no-commit $COMMIT >/dev/null 2>&1; then
    echo "$PROP $COMMIT revert-conflict" >> regressions/INDEX.txt
    git -C /repo worktree remove --force $WT; continue
  fi
  OUT=$(VERIF_REPO=$WT timeout 3000 ./check $PROP --tier quick 2>&1)
  N=0
  for f in $(echo "$OUT" | grep '^VIOLATION' | sed 's/.*replay=//'); do
    N=$((N+1)); cp $f regressions/$PROP-$COMMIT-$N.json
  done
  echo "$PROP $COMMIT violations=$N" >> regressions/INDEX.txt
  git -C /repo worktree remove --force $WT
done < /tmp/verif_fixed_list.txt
git -C /repo worktree prune
cat regressions/INDEX.txt
