#!/bin/bash
# usage: tools/eval_r4.sh <Cxx> <k> <name> [extra checks...]  - evaluates /tmp/r4/<Cxx>/wt/seed<k> as seeded/<name>
P=$1; K=$2; NAME=$3; shift 3
WT=/tmp/r4/$P/wt
[ -f $WT/seed$K/patch.diff ] || { echo "no seed $P $K"; exit 2; }
git -C $WT status --short -- pylatexenc | grep -q . && git -C $WT checkout -q -- pylatexenc
/verif/tools/try_seed.sh $WT seed$K $NAME $P "$@"
