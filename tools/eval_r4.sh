#!/bin/bash
# usage: tools/eval_r4.sh <Cxx> <k> <name> [extra checks...]
# evaluates /tmp/r4/<Cxx>/wt/seed<k> as seeded/<name> in its own scratch worktree (the agent may still be using its own)
P=$1; K=$2; NAME=$3; shift 3
SRC=/tmp/r4/$P/wt/seed$K
[ -f $SRC/patch.diff ] || { echo "no seed $P $K"; exit 2; }
mkdir -p /verif/seeded/$NAME
cp $SRC/patch.diff $SRC/demo.py /verif/seeded/$NAME/
[ -f $SRC/meta.json ] && cp $SRC/meta.json /verif/seeded/$NAME/meta.agent.json
# demo.py locates the tree through its own path: keep the two-levels-up convention (seedR/ inside the worktree)
/verif/tools/retry_seed.sh $NAME $P "$@"
