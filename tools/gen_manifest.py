#!/venv/bin/python
# -*- coding: utf-8 -*-
"""Regenerates /verif/MANIFEST.json from the table below (and validates it if jsonschema
is importable).  The table is the single place where claims are edited."""
import json, os, sys

HERE = os.path.dirname(os.path.dirname(os.path.abspath(__file__)))

# id -> (level category, level text, level note, technique, design ref)
CHECKS = {
 'C20': ('exploration',
         'Every string of length <= 7 (quick) / 9 (thorough) over {letter, newline, CR, space} x every position x 12 offset '
         'settings is pushed through LineNumbersCalculator and LatexWalker.pos_to_lineno_colno and compared with the definition; '
         'every strict-mode parse error raised on all words of length <= 5/6 over a 9-symbol error alphabet must carry the line/column '
         'of its own position. Exhaustive within these bounds; boundary positions (at newline, end of input, empty lines, empty string) '
         'are all inside the bound.',
         'Trusted: the 4-line definitional oracle; CPython str.count/rfind. Says nothing about strings longer than the bound except '
         'through the structure of the bisect lookup (all boundary classes occur within the bound).',
         'bounded-exhaustive enumeration of strings x positions x offsets on the real code, definitional oracle',
         'DESIGN.md section 4 C20'),
 'C01': ('exploration',
         'Every word of length <= 5/6 over 13 raw characters, <= 3/4 over 28 lexemes (default context) and every macro of a custom context with every standard '
         'argument type followed by every word of length <= 3/4 over 15 argument characters, plus all generated documents of the document grammar (derivations '
         'up to size 3/4, <= 1-3 whitespace/comment deviations), is parsed strictly and every accepted tree is checked against the full cover invariants '
         '(tiling of the top level, verbatim concatenation, nesting/order of children, chars/comment text = slice, delimiters at the ends, group/math bodies tile '
         'the span between delimiters); tolerant parses are checked for range/nesting. Exhaustive within the bounds.',
         'Trusted: the invariant checker mc/cover.py (pure function of the returned tree and the input). Gaps between a call node\'s children are allowed (skipped whitespace/comments).',
         'bounded-exhaustive words + derivations with bounded deviations, structural invariants on every returned tree',
         'DESIGN.md section 4 C01'),
 'C02': ('exploration',
         'Every derivation of the document grammar (text, groups, symbols, calls for every signature over {*,[,{,m,o,s,t,r,d,v,AnyDelimited} with every optional slot present/absent and '
         'mandatory slots as group / single char / control sequence, environments with arguments, math and verbatim bodies, four math forms, comments, specials, paragraph breaks, '
         '\\verb, nested brackets in optional arguments) up to size 3 (quick) / 4 (thorough), in default syntax and with every placement of <= 1-3 whitespace/comment deviations, under the '
         'default context and a custom context with and without unknown-macro fallback: the strict parse must have exactly the structure written (whitespace-insensitive skeleton).',
         'Trusted: the generator mc/docgen.py (it states the expected structure); renderings that LaTeX itself reads differently are excluded and listed in DESIGN.md. Whitespace ownership is decided by C01/C03.',
         'exhaustive derivations with bounded deviations on the real parser; expected structure by construction',
         'DESIGN.md section 4 C02'),
 'C05': ('fault_enumeration',
         'All words of the C01 sweep spaces parsed strictly: outcome is a tree or LatexWalkerParseError with 0 <= pos <= len and matching line/column. Every generated well-formed document '
         '(size <= 2 quick / <= 3 thorough) x every token boundary outside verbatim/comments x each of 10 structural faults ({ } $ $$ \\( \\) \\[ \\] \\begin \\end) must be rejected.',
         'Trusted: the generator\'s notion of token boundary; parity/counting argument that one extra delimiter cannot be balanced (verbatim text is inert in fault documents; $$ is injected in text mode only).',
         'bounded-exhaustive words + exhaustive single-fault injection at every token boundary',
         'DESIGN.md section 4 C05'),
 'C06': ('fault_enumeration',
         'All words of the sweep spaces in tolerant mode: terminates (CPU watchdog), raises nothing, equals the strict tree whenever the strict parse succeeds. Every generated document U ending in a '
         'closed construct followed by every stray closer and every garbage word of length <= 1 (2): result is not None and its leading nodes are exactly the strict tree of U.',
         'Trusted: canonical tree dump mc/canon.py; U is well formed by construction. "nodes parsed before the first error" is decided at the top level only.',
         'bounded-exhaustive tolerant-vs-strict differential + exhaustive stray-closer/garbage suffix enumeration',
         'DESIGN.md section 4 C06'),
 'C07': ('exploration',
         'Every word of length <= 4/5 over raw characters and <= 3/4 over lexemes, and every macro name (1000+) / environment name of the default walker and text databases in 17 / 8 argument frames, '
         'each under all 128 combinations of math_mode x strict_latex_spaces x keep_comments x keep_braced_groups x fill_text: latex_to_text returns a str, raises nothing, within the CPU budget.',
         'Trusted: the documented equivalence latex_to_text(s) == nodelist_to_text(tolerant parse) used for 120 of the 128 option sets (the other 8 call latex_to_text itself and are compared).',
         'bounded-exhaustive words + exhaustive name x frame x option sweep',
         'DESIGN.md section 4 C07'),
 'C09': ('model_checking',
         'Explicit-state search over call histories: every sequence of <= 3 (quick) / 4 (thorough) parse calls over a 10-entry menu touching every shared mutable object (process-wide standard-argument parser cache, '
         'lazily built inner parsers, cached default context, one custom context per process). Each history runs in a pristine forked process; after every call its canonical result must equal the '
         'fresh-interpreter baseline of that call and the context database must be unchanged.',
         'Trusted: fork of a never-parsing parent as initial state; canonical dumps. The state is the history itself (no merging), so no abstraction argument is needed.',
         'explicit-state exploration of call histories on the implementation, differential against fresh-interpreter baselines',
         'DESIGN.md section 4 C09'),
 'C10': ('exploration',
         'All words of length <= 6/7 over {$ a { } space \\( \\) \\[ \\]} against a reference recursive-descent parser (accept/reject, shape, delimiters, displaytype, per-node mode); all generated documents '
         'of C02 and all derivations up to size 4/5 of a math-nesting grammar (\\text in math, math in \\text in math, \\ensuremath, equation, groups): every node\'s (in_math_mode, math_mode_delimiter) equals the inherited attribute of the derivation.',
         'Trusted: mc/ref/mathlang.py (60 lines, the documented delimiter rules) and the generator\'s mode attributes.',
         'bounded-exhaustive words vs reference model + exhaustive derivations with modes by construction',
         'DESIGN.md section 4 C10'),
 'C19': ('exploration',
         'On every tree from the strict parse of all generated documents and the tolerant parse of all short words (incl. trees with None bodies / None arguments) a recording visitor is run; its callback sequence, '
         'node identities and per-keyword child results must equal an independent post-order walk over public attributes (arguments in slot order with None placeholders, parsed-arguments object, body, node).',
         'Trusted: the 40-line reference walk in mc/checks/c19.py including the documented conventions for None bodies.',
         'bounded-exhaustive trees, recorded callbacks vs independent post-order walk',
         'DESIGN.md section 4 C19'),

 'C14': ('model_checking',
         'Explicit-state breadth-first search over build histories of real LatexContextDb objects: all operation sequences of length <= 4 (quick) / 5 (thorough) over add_context_category '
         '(3 names x 3 contents x 8 placements incl. missing reference names), set_unknown_macro_spec, freeze, filtered_context (4 variants), extended_with (5 variants) on worlds of <= 3 databases. '
         'States are merged on (reference world, internal chain-map shape, autogen counter). In every state every database of the world (parents re-queried after every derivation) is asked for '
         'every name and kind, categories(), iter_*_specs, test_for_specials on 6 probes; answers must equal a list-based reference model and the self-consistency oracle "first category in '
         'reported order that defines it / longest specials match"; frozen databases must refuse mutation; operation outcomes (ok / ValueError / RuntimeError) must match.',
         'Trusted: the 100-line reference model in mc/checks/c14.py; the merging argument (every mutator reads only fields contained in the canonical key). Automatic category names compared as AUTO.',
         'explicit-state search (BFS with state merging) over operation histories of the implementation, lock-step reference model',
         'DESIGN.md section 4 C14'),

 'C17': ('model_checking',
         'Explicit-state search over chains of <= 3 (quick) / 4 (thorough) sub_context() calls over 30 single- and two-field changes (math mode x delimiter, group / inline / display delimiter lists, every enable_* switch, '
         'escape / comment / forbidden characters) from 3 root states, states merged on (public fields, cached tables). In every state the derived object is compared with ParsingState(**get_fields()): cached tables equal, '
         'token sequences of the real LatexTokenReader equal on all words of length <= 2 (3) over a 16-symbol alphabet containing every configured delimiter; the parent is compared with an independently rebuilt parent.',
         'Trusted: key completeness (a child inherits only fields and cached tables); tokenizer behaviour under arbitrary states is C11\'s subject.',
         'explicit-state search over sub_context chains on the implementation, differential against freshly built states',
         'DESIGN.md section 4 C17'),

 'C04': ('exploration',
         'Against a 90-line reference encoder (documented semantics): (A) every ordered list of <= 2 rules from an 8-entry menu (dict, regex with group expansion / callable replacement, callables '
         'consuming 1 and 2 characters, built-in defaults; per-rule protection) x all 72 configurations (6 protections x 6 unknown-character policies x non_ascii_only) x every string of length <= 3/4 '
         'over 12 symbols (ASCII, %, backslash, precomposed + combining accent, symbols, control, unassigned, astral); (B) every ordered list of <= 3 rule variants x strings of length <= 2/3; every code '
         'point of both built-in tables alone and next to neighbours; homomorphism on every split; PartialLatexToLatexEncoder on all strings of length <= 3/4 over 13 LaTeX lexemes against "reference + copy one token" '
         'rule; custom result class; all call sequences of length <= 3/4 of the cached module-level helper vs fresh encoders. Exact output and exact exception behaviour (only ValueError, only under fail).',
         'Trusted: mc/ref/encoder.py; the built-in tables as data; the library tokenizer for the partial encoder (C11). Zero-width rules excluded (contract: characters consumed).',
         'bounded-exhaustive strings x rule lists x configurations on the real encoder against a reference model; call-history exploration of the helper cache',
         'DESIGN.md section 4 C04'),

 'C08': ('exploration',
         'Invertible alphabet = 1314 characters (every built-in encoding + printable ASCII + newline, minus the committed, structurally computed list mc/data/c08_not_invertible.json of many-to-one / approximate encodings). '
         'Every alphabet character alone and in the frames c.n, n.c, n.c.n for one representative of each of 12 neighbour classes (letter, digit, space, newline, period, brace, accented letter, control-word letter, '
         'no-break space, backslash, percent, combining mark), all strings of length <= 3 over 15 class representatives, and (thorough) every ordered pair of alphabet characters; x 4 brace-protection schemes x 2 latex2text whitespace policies: '
         'l2t(enc(s), tolerant_parsing=False) == NFC(s).',
         'Trusted: the committed exception list (fixes the alphabet; reviewed; never rewritten by the check). Strings containing an ASCII ligature pair or a non-canonical spelling of a blank line are not generated.',
         'bounded-exhaustive strings over the invertible alphabet x configurations, round-trip oracle',
         'DESIGN.md section 4 C08'),
 'C13': ('exploration',
         'Every string of length <= 3/4 over the 20 LaTeX-active/relevant ASCII characters x 2 built-in rule sets x 4 brace protections x 5 unknown-character policies, length <= 4/5 at default options, and every code point with a '
         'built-in rule (both tables) alone, between letter/backslash/brace neighbours and next to control/combining/astral/unassigned/DEL representatives: the output parses in strict mode; for ASCII input the tree has no comment, '
         'environment or math node; output is ASCII under replace/ignore/unihex; under fail ValueError iff a character has no rule and is outside the pass-through range.',
         'Trusted: strict parse under the default walker context as the notion of "parseable"; the reference predicate for the fail policy. One known finding (unicode-xml, stray combining character) is listed in known_findings.json.',
         'bounded-exhaustive strings x configurations, strict parse of every encoder output',
         'DESIGN.md section 4 C13'),
 'C18': ('exploration',
         'Node lists = strict parse of every word of length <= 5/6 over {a b , = space { } comment macro $} (and the same lists with a None entry at every position); split_at_chars with 5 separator kinds (string, two-character string, '
         'compiled regex, callable, equals) x keep_empty x max_split in {None,0,1,2,3} x skip_none against a reference partition computed from the top-level nodes (parts, node identity, positions of new chars nodes, part spans); '
         'split_at_node (3 predicates x keep_separators x max_split) and filter (5 option sets) against direct references; parse_keyval_content (4 repeated-key policies x extract on/off) against the composition of the two checked splits.',
         'Trusted: the 40-line reference split (separators inside top-level chars nodes only, max_split counts splits, keep_empty only removes empty parts).',
         'bounded-exhaustive parsed node lists x option combinations against a reference partition',
         'DESIGN.md section 4 C18'),

 'C15': ('exploration',
         'Real file system, fresh temporary tree per layout: 125 layouts (5 states - absent, regular file, symlink to outside file, symlink to inside file, directory - for each of in/x, in/x.tex, in/x.latex) x fixtures '
         '(inside file in a subdirectory, sibling directory in2/ whose name extends the base name, outside directory, directory symlinks in both directions, outside symlink pointing inside; base also given with trailing slash, '
         'through a symlink and with a dot-dot spelling) x every requested name of <= 2 (quick) / 3 (thorough) components over 13 components plus absolute spellings; read_input_file and latex_to_text of \\input / \\include. '
         'Returned content is identified by unique markers: its owner must be properly inside the real path of the base, and names resolving to inside files must be read; without a configured directory nothing is read.',
         'Trusted: os.path.realpath for the oracle; the documented completion order (bare name, .tex, .latex) for the liveness half.',
         'bounded-exhaustive names x generated directory layouts, containment oracle via file markers',
         'DESIGN.md section 4 C15'),

 'C16': ('exploration',
         'Every word of length <= 3/4 over 14 lexemes at every lexeme boundary and every word of length <= 2/4 over the raw characters at every position x 39 legacy call variants (get_token x brace/environment flags, '
         'get_latex_nodes x 7 stop conditions x read_max_nodes, get_latex_expression x strict_braces, get_latex_braced_group x 5 brace types, get_latex_environment x names, get_latex_maybe_optional_arg) x strict/tolerant walkers, '
         'compared (result canonical tree, pos, len; or failure kind) with an independent restatement through the pylatexenc-3 parser objects; structurally, stop-condition calls started after "{", "$", \\begin{itemize} must return '
         'the contents and end of the node the v3 parsers build there. Spec spellings: all 121 argument strings over {*,[,{} through 7-9 macro spellings and 4 environment spellings x every input \\n.w, w of length <= 3/4 over 7 characters: '
         'same arguments, positions, argspec and legacy nodeoptarg/nodeargs whenever the v3 declaration succeeds.',
         'Trusted: the v3 restatements in mc/checks/c16.py. When the v3 declaration fails on an input, legacy spellings may raise or return their documented empty result (only crashes are reported).',
         'bounded-exhaustive words x positions x legacy variants, differential against equivalent v3 parser objects (literal + structural)',
         'DESIGN.md section 4 C16'),

 'C03': ('exploration',
         'Every derivation of the core grammar (text, groups, \\textbf/\\emph, symbols \\alpha \\o \\ss \\&, accents with token and group arguments, \\frac, \\sqrt[ ]{ }, specials ~ -- --- `` \'\' &, comments, paragraph breaks, itemize + \\item, '
         'an unknown environment, $ \\( $$ \\[ and equation, \\label) up to size 3 with <= 1 (quick) / 2 (thorough) whitespace/comment deviations x 32 option sets (4 strict_latex_spaces policies x 4 math modes x keep_braced_groups): '
         'latex_to_text(strict parse) equals, exactly, a 120-line reference renderer applying the documented rules to the parsed tree; plus every ordered pair of self-contained blocks joined by a paragraph break / space is rendered compositionally.',
         'Trusted: mc/ref/l2t.py (rules + a ~25-name symbol/accent/specials table transcribed from the documentation); the parsed tree (C01/C02). fill_text is outside C03.',
         'exhaustive derivations with bounded deviations x option product against a reference renderer; metamorphic composition check',
         'DESIGN.md section 4 C03'),
 'C12': ('exploration',
         'Every derivation of the core grammar (+ \\label) up to size 3 in which every text item and every comment is replaced by a unique marker word, under 48 option sets (4 math modes x keep_comments x 3 whitespace policies x fill_text) '
         'and 2 text databases (default; custom with discard=True macro and environment): presence/absence of each marker and of formula sources / delimiters follows from the derivation (inside formula, inside discarded or unrendered construct, comment vs text).',
         'Trusted: marker classes computed from the derivation in mc/checks/c12.py (which arguments are rendered is taken from the documented replacement strings: \\sqrt renders its mandatory argument only, environments render their body only); outermost formulas located in the parsed tree.',
         'exhaustive derivations with unique markers x option product, presence/absence oracle from the derivation',
         'DESIGN.md section 4 C12'),

 'C11': ('model_checking',
         'Explicit-state exploration of the real LatexTokenReader: every state (remaining input, configuration) for all words of length '
         '<= 3 (quick) / 4 (thorough) over a 15-symbol alphabet x 6172 configurations (math mode and delimiter, 2^7 enable_* switches, extra group '
         'delimiters, with/without context db, strict/tolerant, forbidden/escape/comment characters); the single outgoing transition of every state is executed '
         '(peek, read, rewind, re-read) and checked for purity of peek, progress, losslessness and rewind; complete runs check <= len(s) reads, '
         'reconstruction of the input and the suffix-closure argument that makes one transition per state a complete exploration.',
         'Trusted: the suffix-closure argument (itself checked on every step of every complete run); token equality is on (tok, arg, pos, pos_end, pre_space, post_space). '
         'Longer inputs are covered only through the tokenizer looking ahead a bounded distance.',
         'explicit-state exploration of the implementation (states x one transition each, complete runs), invariants per transition',
         'DESIGN.md section 4 C11'),
}

NOT_YET = 'not claimed yet: the exhaustive check for this property is still under construction (see DESIGN.md section 9)'

# extensions made after the texts above were written (appended to the level text; details in DESIGN.md sections 4 and 9)
ADDENDA = {
 'C01': 'Also: 30 lexemes incl. verbatim environments; words over 13 lexemes with CR / CRLF / tab; invariant "a call none of whose arguments was written spans its name and recorded post-space only"; a macro declared through the pylatexenc-2 MacroStandardArgsParser and the symbol \\} in the grammars.',
 'C02': 'Also: deep-nesting profiles (size 4-5 over two calls), a legacy-declared macro (MacroStandardArgsParser) in the custom context, \\} as a symbol, bracketed text outside optional arguments.',
 'C03': 'Also: \\\\ and \\hspace in the core grammar; adjacency and same-call-twice families; converter call histories (all sequences of <= 2/3 documents of a 14-document menu on one converter per option set, and each ordered pair as one document).',
 'C04': 'Also: 10-rule menu incl. a callable asking for the encoder object; strings whose canonical composition involves no combining mark and astral characters without a rule x 72 configurations; helper call histories over 8 option tuples and caller-mutation histories of the built-in rule lists, one forked process per history.',
 'C05': 'Also: words over 13 lexemes with CR / CRLF / tab.',
 'C06': 'Also: termination under repetition head.unit^n.tail (19 x 31 x 4 lexeme choices, n <= 40 quick / 120 thorough, default recursion limit); words with CR / CRLF / tab. The thorough tier reports the recorded RecursionError finding.',
 'C07': 'Also: 21 macro frames and 14 environment frames (ragged matrix bodies, optional argument nested in an optional argument); converter call histories <= 3 over a 15-snippet menu.',
 'C08': 'Also: each character next to itself (,, << >> are generated; only the five real ligature pairs are excluded); a failure of the long-lived objects is re-checked with fresh objects and the shortest call history searched; converters built after another default converter was customised.',
 'C09': 'Also: 25-call menu incl. calls without explicit context (new default database per call), repeated parses on one walker, an embellishment marker with nothing to read after it.',
 'C10': 'Also: custom constructs whose single delta switches the mode and extends the context, nested to depth 3/4 with groups, formulas and a context-extending environment (every character names its expected mode).',
 'C11': 'Also: carriage return in the alphabet; peek under one state / read under another (math settings; short-lived states differing in the macro-name alphabet with address reuse provoked); read, go back, read under another state; rewind from the end of the stream and second complete run; complete runs over 11 lexemes <= 4/5 with a re-read of every token last to first.',
 'C12': 'Also: \\\\ and \\hspace in the grammar; 12 equation environments x 8 positions; 6 matrix-like environments with a comment; histories of <= 3 operations (convert, declare discarded, replace context) on one converter.',
 'C13': 'Also: no bare # & _ ^ ~ in character / specials nodes of the parsed output for ASCII input; strings with lone surrogates.',
 'C14': 'Also: every intermediate database is queried for every name while a history is replayed; 6 filter variants (keep_which with specials); a specials sequence with a first character of its own.',
 'C15': 'Also: names through a symlinked directory followed by dot-dot; base directory spelled through a symlink plus dot-dot; names that begin with two dots; non-strict then strict (explicitly and by default) on the same and another object; one converter re-configured between directories.',
 'C16': 'Also: 65 legacy variants (several stop conditions in one call, caller-supplied math-mode state, modes compared); 13 kinds of white space before an argument; every spelling also wrapped in the optional and mandatory argument of a v3 macro; is_math_mode / args_math_mode spellings.',
 'C17': 'Also: 35 deltas (in_math_mode alone, everything off in one step and single switches back on), 17-symbol alphabet.',
 'C18': 'Also: node split / filter on lists with None entries; purity of key-value parsing.',
 'C19': 'Also: a recorder whose callbacks return falsy values; exactly-once over object identities (nodes, lists, argument records); trees from words with CR / CRLF / tab.',
 'C20': 'Also: walker and calculator built with an offset left out; descending and all-pairs query orders; error line/column through the group / expression parsers and the pylatexenc-2 entry points; 10-symbol error alphabet.',
}

# round 4 (appended after ADDENDA)
ADDENDA4 = {
 'C01': 'Round 4: words over 16 lexemes with cut-off \\begin / \\end tokens.',
 'C04': 'Round 4: 12-rule menu (a third dictionary overlapping the others and the defaults; group-less regex patterns whose template quotes the whole match); every code point whose compatibility (NFKC) form contains a LaTeX-active ASCII character x 72 configurations x both tables; two-rule lists run under 36 of the 72 configurations in the quick tier.',
 'C05': 'Round 4: words over 16 lexemes with cut-off \\begin / \\end tokens and newlines.',
 'C06': 'Round 4: words over 16 lexemes with cut-off \\begin / \\end tokens (unterminated environment names).',
 'C07': 'Round 4: 24 macro frames (the macro inside \\title / \\author / \\date followed by \\maketitle); 17-snippet history menu; cut-off environment tokens.',
 'C13': 'Round 4: every code point whose compatibility (NFKC) form contains a LaTeX-active ASCII character (full-width, small, vertical forms) in 7 frames x all configurations; no comment or environment node in the parsed output for ANY input.',
 'C15': 'Round 4: 216 layouts (a file symlink whose target passes through a directory symlink leading outside); three converters alive at once and configured one after the other.',
 'C17': 'Round 4: 39 deltas (a delimiter pair moved between the inline and display lists; forbidden characters changed twice); histories interleave a "use" operation (tokenise/parse with the state) before every sub_context(), the same chain over never-used states must give an equal state; strict token reading compared as well; every distinct state also PARSES a 38-document menu (strict, and tolerant where strict fails) identically to its freshly built twin.',
 'C18': 'Round 4: the source text (latex_verbatim) of every derived list - split part, filtered list, aggregated key-value value - equals the concatenation of its members\' source text.',
 'C19': 'Round 4: trees from words with cut-off environment tokens.',
 'C20': 'Round 4: error line/column for errors raised by the token reader itself (cut-off \\begin / \\end, \\verb without argument) after LF / CR line ends: words <= 4/5 over 12 lexemes.',
}


def main():
    ids = ['C%02d' % i for i in range(1, 21)]
    checks = []
    na = []
    for pid in ids:
        if pid in CHECKS and os.path.exists(os.path.join(HERE, 'mc', 'checks', pid.lower() + '.py')):
            cat, text, note, tech, ref = CHECKS[pid]
            if pid in ADDENDA:
                text = text + ' ' + ADDENDA[pid]
            if pid in ADDENDA4:
                text = text + ' ' + ADDENDA4[pid]
            checks.append({
                'property_id': pid,
                'quick_cmd': './check %s --tier quick' % pid,
                'thorough_cmd': './check %s --tier thorough' % pid,
                'evidence_file': '/verif/evidence/%s.json' % pid,
                'replay_cmd_template': './check --replay {path}',
                'engine': 'mc-explorer',
                'level_claimed': {'category': cat, 'text': text, 'design_ref': ref},
                'level_note': note,
                'technique': tech,
            })
        else:
            na.append({'property_id': pid, 'reason': NOT_YET})
    m = {
        'version': 1,
        'setup_cmd': 'true',
        'hooks': {
            'guard': 'PYLATEXENC_VERIF',
            'enable': 'no source hooks are needed: every observation point is a public return value or attribute; checks import /repo\'s working tree directly (VERIF_REPO, default /repo)',
            'baseline_off_cmd': 'cd /repo && /venv/bin/python -m pytest -ra -q -p no:cacheprovider --timeout=900 --continue-on-collection-errors',
            'source_commits': [],
            'add_only': True,
        },
        'engines': [{
            'name': 'mc-explorer',
            'path': '/verif/mc/engine.py',
            'serves_properties': [c['property_id'] for c in checks],
            'kind_free_text': 'hand-written stateless / explicit-state explorer for Python: bounded-exhaustive words, derivations with bounded deviations, BFS over operation histories of the real objects; one forked process per shard (16 at a time); CPU-time watchdog per execution; violations confirmed in a fresh interpreter (alone, or with their shard when history-dependent)',
        }],
        'checks': checks,
        'notes': 'All checks are run as ./check <id> --tier quick|thorough from /verif with /venv/bin/python; they import pylatexenc from /repo\'s current working tree (no build step). known_findings.json lists genuine defects recorded rather than repaired and the fix: commits.',
        'not_applicable': na,
    }
    path = os.path.join(HERE, 'MANIFEST.json')
    with open(path, 'w') as f:
        json.dump(m, f, indent=1, ensure_ascii=True)
        f.write('\n')
    try:
        import jsonschema
        jsonschema.validate(m, json.load(open('/root/.vp/MANIFEST.schema.json')))
        for c in checks:
            ef = c['evidence_file']
            if os.path.exists(ef):
                jsonschema.validate(json.load(open(ef)), json.load(open('/root/.vp/EVIDENCE.schema.json')))
        print('MANIFEST.json valid; %d checks, %d not_applicable' % (len(checks), len(na)))
    except ImportError:
        print('written (jsonschema not importable here; run with python3-vt to validate)')

if __name__ == '__main__':
    main()
