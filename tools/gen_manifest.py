#!/venv/bin/python
# -*- coding: utf-8 -*-
"""Regenerates /verif/MANIFEST.json from the table below (and validates it if jsonschema
is importable).  The table is the single place where claims are edited."""
import json, os, sys

HERE = os.path.dirname(os.path.dirname(os.path.abspath(__file__)))

# id -> (level category, level text, level note, technique, design ref)
CHECKS = {
 'C20': ('exploration',
         'Every string of length <= 7 (quick) / 9 (thorough) over {letter, newline, CR, space} x every position x 12 offset '
         'settings is pushed through LineNumbersCalculator and LatexWalker.pos_to_lineno_colno and compared with the definition; '
         'every strict-mode parse error raised on all words of length <= 5/6 over a 9-symbol error alphabet must carry the line/column '
         'of its own position. Exhaustive within these bounds; boundary positions (at newline, end of input, empty lines, empty string) '
         'are all inside the bound.',
         'Trusted: the 4-line definitional oracle; CPython str.count/rfind. Says nothing about strings longer than the bound except '
         'through the structure of the bisect lookup (all boundary classes occur within the bound).',
         'bounded-exhaustive enumeration of strings x positions x offsets on the real code, definitional oracle',
         'DESIGN.md section 4 C20'),
 'C11': ('model_checking',
         'Explicit-state exploration of the real LatexTokenReader: every state (remaining input, configuration) for all words of length '
         '<= 3 (quick) / 4 (thorough) over a 15-symbol alphabet x 6172 configurations (math mode and delimiter, 2^7 enable_* switches, extra group '
         'delimiters, with/without context db, strict/tolerant, forbidden/escape/comment characters); the single outgoing transition of every state is executed '
         '(peek, read, rewind, re-read) and checked for purity of peek, progress, losslessness and rewind; complete runs check <= len(s) reads, '
         'reconstruction of the input and the suffix-closure argument that makes one transition per state a complete exploration.',
         'Trusted: the suffix-closure argument (itself checked on every step of every complete run); token equality is on (tok, arg, pos, pos_end, pre_space, post_space). '
         'Longer inputs are covered only through the tokenizer looking ahead a bounded distance.',
         'explicit-state exploration of the implementation (states x one transition each, complete runs), invariants per transition',
         'DESIGN.md section 4 C11'),
}

NOT_YET = 'not claimed yet: the exhaustive check for this property is still under construction (see DESIGN.md section 9)'

def main():
    ids = ['C%02d' % i for i in range(1, 21)]
    checks = []
    na = []
    for pid in ids:
        if pid in CHECKS and os.path.exists(os.path.join(HERE, 'mc', 'checks', pid.lower() + '.py')):
            cat, text, note, tech, ref = CHECKS[pid]
            checks.append({
                'property_id': pid,
                'quick_cmd': './check %s --tier quick' % pid,
                'thorough_cmd': './check %s --tier thorough' % pid,
                'evidence_file': '/verif/evidence/%s.json' % pid,
                'replay_cmd_template': './check --replay {path}',
                'engine': 'mc-explorer',
                'level_claimed': {'category': cat, 'text': text, 'design_ref': ref},
                'level_note': note,
                'technique': tech,
            })
        else:
            na.append({'property_id': pid, 'reason': NOT_YET})
    m = {
        'version': 1,
        'setup_cmd': 'true',
        'hooks': {
            'guard': 'PYLATEXENC_VERIF',
            'enable': 'no source hooks are needed: every observation point is a public return value or attribute; checks import /repo\'s working tree directly (VERIF_REPO, default /repo)',
            'baseline_off_cmd': 'cd /repo && /venv/bin/python -m pytest -ra -q -p no:cacheprovider --timeout=900 --continue-on-collection-errors',
            'source_commits': [],
            'add_only': True,
        },
        'engines': [{
            'name': 'mc-explorer',
            'path': '/verif/mc/engine.py',
            'serves_properties': [c['property_id'] for c in checks],
            'kind_free_text': 'hand-written stateless / explicit-state explorer for Python: bounded-exhaustive words, derivations with bounded deviations, BFS over operation histories of the real objects; 16 forked workers; CPU-time watchdog per execution',
        }],
        'checks': checks,
        'notes': 'All checks are run as ./check <id> --tier quick|thorough from /verif with /venv/bin/python; they import pylatexenc from /repo\'s current working tree (no build step). known_findings.json lists genuine defects recorded rather than repaired and the fix: commits.',
        'not_applicable': na,
    }
    path = os.path.join(HERE, 'MANIFEST.json')
    with open(path, 'w') as f:
        json.dump(m, f, indent=1, ensure_ascii=True)
        f.write('\n')
    try:
        import jsonschema
        jsonschema.validate(m, json.load(open('/root/.vp/MANIFEST.schema.json')))
        for c in checks:
            ef = c['evidence_file']
            if os.path.exists(ef):
                jsonschema.validate(json.load(open(ef)), json.load(open('/root/.vp/EVIDENCE.schema.json')))
        print('MANIFEST.json valid; %d checks, %d not_applicable' % (len(checks), len(na)))
    except ImportError:
        print('written (jsonschema not importable here; run with python3-vt to validate)')

if __name__ == '__main__':
    main()
