#!/bin/bash
# usage: tools/try_seed.sh <worktree> <seeddir-in-worktree> <name> <check ids...>
# Confirms a seeded change in a scratch worktree (tests pass, demo fails with / passes without the change),
# runs the given checks against it (VERIF_REPO), copies it to /verif/seeded/<name>/ and reverts the worktree.
WT=$1; SEED=$2; NAME=$3; shift 3
cd $WT || exit 2
git checkout -q -- pylatexenc
git checkout -q --detach main 2>/dev/null   # bring the scratch worktree to /repo's current HEAD
timeout 120 /venv/bin/python $SEED/demo.py >/dev/null 2>&1; D0=$?
git apply $SEED/patch.diff || { echo "patch does not apply"; exit 2; }
T=$(/venv/bin/python -m pytest -q -p no:cacheprovider -x test 2>&1 | tail -1)
timeout 120 /venv/bin/python $SEED/demo.py >/dev/null 2>&1; D1=$?
echo "== $NAME: tests: $T | demo clean=$D0 patched=$D1"
RES=""
for c in "$@"; do
  OUT=$(cd /verif && VERIF_REPO=$WT timeout 3000 ./check $c --tier ${TIER:-quick} 2>&1)
  V=$(echo "$OUT" | grep -c '^VIOLATION')
  H=$(echo "$OUT" | grep -c '^HARNESS-ERROR')
  echo "   $c: violations=$V harness_errors=$H :: $(echo "$OUT" | grep -m1 -A1 '^VIOLATION' | tail -1 | cut -c1-260)"
  RES="$RES $c:$V"
done
git checkout -q -- pylatexenc
mkdir -p /verif/seeded/$NAME && cp $SEED/patch.diff $SEED/demo.py /verif/seeded/$NAME/ 2>/dev/null
[ -f $SEED/meta.json ] && cp $SEED/meta.json /verif/seeded/$NAME/meta.agent.json
echo "$NAME | tests: $T | demo clean=$D0 patched=$D1 | checks:$RES" >> /verif/seeded/RESULTS.txt
