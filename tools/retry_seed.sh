#!/bin/bash
# usage: tools/retry_seed.sh <name> <check ids...>   - re-runs a stored seeded change (seeded/<name>/) against checks
NAME=$1; shift
WT=/tmp/wt_retry_$$
git -C /repo worktree add --detach $WT main -q || exit 2
mkdir -p $WT/seedR && cp /verif/seeded/$NAME/patch.diff /verif/seeded/$NAME/demo.py $WT/seedR/
/verif/tools/try_seed.sh $WT seedR $NAME "$@"
git -C /repo worktree remove --force $WT; git -C /repo worktree prune
