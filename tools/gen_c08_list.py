#!/venv/bin/python
"""Computes mc/data/c08_not_invertible.json from the tree at VERIF_REPO (run once at implementation
time; the file is committed and reviewed, the C08 check never rewrites it).
A character is listed when its default encoding, taken alone, does not convert back to it:
 - 'shared-encoding'   several code points have the same replacement string (many-to-one);
 - 'approximation'     latex2text renders the replacement as something else / does not know the macro;
 - 'not-nfc'           the character is not NFC-stable (the encoder normalises first)."""
import sys, os, json, unicodedata, logging, collections
sys.path.insert(0, os.environ.get('VERIF_REPO', '/repo'))
logging.disable(logging.CRITICAL)
from pylatexenc.latexencode import UnicodeToLatexEncoder, get_builtin_uni2latex_dict
from pylatexenc.latex2text import LatexNodes2Text
t = get_builtin_uni2latex_dict()
enc = UnicodeToLatexEncoder(unknown_char_warning=False)
l2t = LatexNodes2Text()
byrepl = collections.defaultdict(list)
for cp, r in t.items():
    byrepl[r].append(cp)
out = {}
cands = sorted(set(t.keys()) | set(range(32, 127)) | {10})
inv = 0
for cp in cands:
    c = chr(cp)
    if unicodedata.normalize('NFC', c) != c:
        out['%04X' % cp] = dict(char=c, reason='not-nfc')
        continue
    e = enc.unicode_to_latex(c)
    try:
        back = l2t.latex_to_text(e, tolerant_parsing=False)
    except Exception as ex:
        back = 'EXC:' + type(ex).__name__
    if back == c:
        inv += 1
        continue
    reason = 'shared-encoding' if cp in t and len(byrepl[t[cp]]) > 1 else 'approximation'
    out['%04X' % cp] = dict(char=c, encoding=e, converts_back_to=back, reason=reason,
                            shares_with=['%04X' % x for x in byrepl.get(t.get(cp), []) if x != cp] or None)
json.dump(dict(_comment=__doc__, invertible_count=inv, not_invertible=out),
          open('/verif/mc/data/c08_not_invertible.json', 'w'), indent=1, sort_keys=True, ensure_ascii=True)
print('invertible', inv, 'not invertible', len(out))
import collections as C
print(C.Counter(v['reason'] for v in out.values()))
for k, v in list(out.items())[:400]:
    if v['reason'] != 'not-nfc' and int(k, 16) < 0x2100:
        print(k, repr(v.get('encoding')), '->', repr(v.get('converts_back_to')), v['reason'])
