#!/venv/bin/python
"""Generates seeded/TABLE.md from seeded/*/meta.json: one row per deliberately injected change."""
import json, glob, os
rows = []
for d in sorted(glob.glob('/verif/seeded/C*-*'), key=lambda d: (os.path.basename(d).split('-')[0], int(os.path.basename(d).split('-')[1]))):
    try:
        m = json.load(open(os.path.join(d, 'meta.json')))
    except Exception:
        continue
    name = os.path.basename(d)
    rows.append((name, m))
out = ['# Deliberately injected property-breaking changes (%d)' % len(rows), '',
       'Each change keeps the 286 existing tests green; `demo.py` fails with it and passes without it.',
       'Columns: checks that report a VIOLATION for it (quick tier, final version of the checks) and checks whose *first* version missed it.',
       '', '| seed | files | what (one line) | caught by | first version missed |', '|---|---|---|---|---|']
for name, m in rows:
    summ = (m.get('summary') or '').replace('|', '/').replace('\n', ' ')
    if len(summ) > 230:
        summ = summ[:227] + '...'
    files = ', '.join(os.path.basename(f) for f in (m.get('files') or []))
    out.append('| %s | %s | %s | %s | %s |' % (name, files, summ, (', '.join(m.get('caught_by') or []) or ('not evaluated yet' if m.get('status') else '(none)')),
                                              ', '.join(m.get('missed_by_first_version_of') or []) or '-'))
open('/verif/seeded/TABLE.md', 'w').write('\n'.join(out) + '\n')
print(len(rows), 'rows')
