#!/venv/bin/python
"""Rewrites the 'quick: cases / wall' cells of the table in DESIGN.md section 4 from the committed evidence files."""
import json, re, os
HERE = os.path.dirname(os.path.dirname(os.path.abspath(__file__)))


def fmt(n):
    if n >= 10_000_000:
        return '%.1f M' % (n / 1e6)
    if n >= 1_000_000:
        return '%.2f M' % (n / 1e6)
    if n >= 100_000:
        return '%d k' % round(n / 1e3)
    if n >= 10_000:
        return '%.1f k' % (n / 1e3)
    return ('%d' % n) if n < 1000 else ('%d %03d' % (n // 1000, n % 1000))


p = os.path.join(HERE, 'DESIGN.md')
s = open(p).read()
out = []
for line in s.split('\n'):
    m = re.match(r'^\| (C\d\d) \| ([^|]*) \| ([^|]*) \| ([^|]*) \|(.*)$', line)
    if m and os.path.exists(os.path.join(HERE, 'evidence', m.group(1) + '.json')):
        d = json.load(open(os.path.join(HERE, 'evidence', m.group(1) + '.json')))
        c = d['coverage']
        cell = m.group(4)
        wall = int(round(d['wall_s']))
        pid = m.group(1)
        if pid == 'C09':
            cell = '%s histories, %s calls / %d s' % (fmt(c['evaluations']), fmt(c.get('transitions', 0)), wall)
        elif pid in ('C14', 'C17'):
            cell = '%s states, %s transitions / %d s' % (fmt(c.get('states', 0)), fmt(c.get('transitions', 0)), wall)
        else:
            mm = re.match(r'^\s*[\d. ]+(?:M|k)?\s*(.*?)\s*/\s*\d+ s\s*$', cell)
            unit = mm.group(1) if mm else ''
            cell = ('%s %s' % (fmt(c['evaluations']), unit)).strip() + ' / %d s' % wall
        line = '| %s | %s | %s | %s |%s' % (pid, m.group(2), m.group(3), cell, m.group(5))
    out.append(line)
open(p, 'w').write('\n'.join(out))
print('DESIGN.md table updated')
