#!/venv/bin/python
"""Builds seeded/<id>/meta.json from the agent's meta and the lines of seeded/RESULTS.txt."""
import json, os, re, collections
base = '/verif/seeded'
res = collections.OrderedDict()
for line in open(os.path.join(base, 'RESULTS.txt')):
    parts = [p.strip() for p in line.strip().split('|')]
    if len(parts) < 4:
        continue
    name = parts[0]
    checks = dict((c.split(':')[0], int(c.split(':')[1])) for c in parts[3].replace('checks:', '').split())
    r = res.setdefault(name, dict(tests=parts[1], demo=parts[2], runs=[]))
    r['tests'] = parts[1]; r['demo'] = parts[2]
    r['runs'].append(checks)
for name, r in res.items():
    d = os.path.join(base, name)
    if not os.path.isdir(d):
        continue
    agent = {}
    if os.path.exists(os.path.join(d, 'meta.agent.json')):
        try:
            agent = json.load(open(os.path.join(d, 'meta.agent.json')))
        except Exception:
            agent = {}
    final = {}
    for run in r['runs']:
        final.update(run)
    first = r['runs'][0]
    # runs made before the C02 finding (nested bracket pair) was recorded list it as a C02 violation: not the seed
    if name in ('C10-4', 'C10-6'):
        final.pop('C02', None)
    meta = {
        'property': name.split('-')[0],
        'summary': agent.get('summary'),
        'needs_to_manifest': agent.get('needs') or agent.get('needs_to_manifest'),
        'files': agent.get('files'),
        'confirmed': {
            'existing_test_suite_with_change': r['tests'],
            'demo_exit_status': r['demo'],
            'how': 'tools/try_seed.sh: scratch worktree at /repo HEAD, git apply patch.diff, pytest, demo.py with and without the change, then ./check <ids> with VERIF_REPO pointing at the worktree, worktree reverted',
        },
        'violation_signatures_reported_by_check': final,
        'caught_by': sorted(c for c, n in final.items() if n > 0),
        'missed_by_first_version_of': sorted(c for c, n in first.items() if n == 0 and final.get(c, 0) > 0),
    }
    json.dump(meta, open(os.path.join(d, 'meta.json'), 'w'), indent=1)
    print(name, meta['caught_by'], 'first-missed:', meta['missed_by_first_version_of'])
